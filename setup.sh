#!/bin/sh
# Build everything the checks need, offline, from files on disk.
set -eu
ROOT=$(cd "$(dirname "$0")" && pwd)
mkdir -p "$ROOT/target" "$ROOT/evidence" "$ROOT/replays"
if ! cmp -s /repo/Cargo.lock "$ROOT/target/.repo-lock-seen"; then
    cp /repo/Cargo.lock "$ROOT/harness/Cargo.lock"
    cp /repo/Cargo.lock "$ROOT/target/.repo-lock-seen"
fi
cd "$ROOT/harness"
export CARGO_NET_OFFLINE=true
cargo build --offline 2>&1 | tail -3
echo "setup done"

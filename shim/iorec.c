/*
 * iorec - file-system call recorder, fault injector and delay injector.
 *
 * The same source is used two ways:
 *   - compiled to an object and linked straight into the harness binary (the
 *     definitions below then take precedence over libc's for every call made
 *     by the statically linked Rust code, std included);
 *   - compiled to libiorec.so for LD_PRELOAD into a foreign binary.
 *
 * Only calls that touch a path under the watched directory (iorec_watch) are
 * recorded or tampered with.  Everything else goes straight to libc.
 *
 * For calls that change the directory (create, write, truncate, rename, link,
 * unlink, fsync) the real call and the log append happen under one mutex, so
 * the order of records in the log is the order in which the effects happened.
 */
#define _GNU_SOURCE
#include <dlfcn.h>
#include <errno.h>
#include <fcntl.h>
#include <pthread.h>
#include <stdarg.h>
#include <stdint.h>
#include <stdio.h>
#include <stdlib.h>
#include <string.h>
#include <sys/mman.h>
#include <sys/syscall.h>
#include <sys/types.h>
#include <sys/uio.h>
#include <time.h>
#include <unistd.h>

enum {
    K_OPEN = 1, K_WRITE = 2, K_PWRITE = 3, K_FSYNC = 4, K_FDATASYNC = 5,
    K_FTRUNCATE = 6, K_TRUNCATE = 7, K_RENAME = 8, K_LINK = 9, K_UNLINK = 10,
    K_MMAP = 11, K_CLOSE = 12, K_DUP = 13, K_MARK = 14, K_FALLOCATE = 15,
    K_UNSUPPORTED = 16, K_SYNCRANGE = 17
};
/* call classes for faults and delays */
enum { C_WRITE = 1, C_CREATE = 2, C_FSYNC = 4, C_UNLINK = 8, C_OPENRD = 16, C_MMAP = 32 };
/* file kinds */
enum { F_DATA = 1, F_HINT = 2, F_OTHER = 4 };
/* record flags */
enum { RF_INJECTED = 1, RF_MUTATING = 2 };

struct rec {
    uint32_t total_len;
    uint16_t kind;
    uint16_t flags;
    uint64_t seq;
    uint64_t t_ns;
    int32_t tid;
    int32_t fd;
    int64_t result;
    int32_t err;
    uint32_t path_len;
    uint64_t a;
    uint64_t b;
    uint32_t data_len;
    uint32_t pad;
};

#define MAXFD 65536
static char *fdtab[MAXFD];          /* path of watched fds, NULL otherwise */
static pthread_mutex_t mu = PTHREAD_MUTEX_INITIALIZER;
static char watch[4096];
static size_t watch_len;
static volatile int enabled;
static int record_data = 1;
static uint8_t *logbuf; static size_t loglen, logcap;
static uint64_t seqno;

/* fault state */
static uint32_t f_class, f_kind; static int64_t f_nth = -1, f_seen; static int f_errno; static uint64_t f_hit_seq;
/* delay rules */
struct drule { uint32_t cls, kind, when, prob_ppm, min_us, max_us; };
static struct drule drules[16]; static int ndrules; static uint64_t dseed = 88172645463325252ULL;
static uint64_t delays_done;
/* short writes: a write of >= 2 bytes to a watched file completes partially with this probability */
static uint32_t s_ppm; static uint64_t s_seed = 0x9E3779B97F4A7C15ULL; static uint64_t shorts_done;
static uint64_t srnd(void) { s_seed ^= s_seed << 13; s_seed ^= s_seed >> 7; s_seed ^= s_seed << 17; return s_seed; }

static uint64_t now_ns(void) { struct timespec ts; clock_gettime(CLOCK_MONOTONIC, &ts); return (uint64_t)ts.tv_sec * 1000000000ULL + ts.tv_nsec; }

#define REAL(ret, name, ...) static ret (*real_##name)(__VA_ARGS__); if (!real_##name) real_##name = dlsym(RTLD_NEXT, #name)

static int is_watched(const char *p) { return enabled && watch_len && p && strncmp(p, watch, watch_len) == 0; }
static int kind_of(const char *p) {
    size_t n = p ? strlen(p) : 0;
    if (n >= 5 && strcmp(p + n - 5, ".data") == 0) return F_DATA;
    if (n >= 5 && strcmp(p + n - 5, ".hint") == 0) return F_HINT;
    return F_OTHER;
}
static char *fdpath(int fd) { if (fd < 0 || fd >= MAXFD) return NULL; return __atomic_load_n(&fdtab[fd], __ATOMIC_ACQUIRE); }

/* append a record; caller holds mu */
static void put_rec(int kind, int flags, int fd, const char *path, int64_t result, int err, uint64_t a, uint64_t b, const void *data, size_t dlen) {
    size_t pl = path ? strlen(path) : 0;
    if (!record_data && kind != K_RENAME && kind != K_LINK) dlen = 0;
    size_t tot = sizeof(struct rec) + pl + dlen;
    if (loglen + tot > logcap) {
        size_t nc = logcap ? logcap * 2 : (1 << 20);
        while (nc < loglen + tot) nc *= 2;
        uint8_t *nb = realloc(logbuf, nc);
        if (!nb) return;
        logbuf = nb; logcap = nc;
    }
    struct rec r; memset(&r, 0, sizeof r);
    r.total_len = (uint32_t)tot; r.kind = (uint16_t)kind; r.flags = (uint16_t)flags; r.seq = seqno++;
    r.t_ns = now_ns(); r.tid = (int32_t)syscall(SYS_gettid); r.fd = fd; r.result = result; r.err = err;
    r.path_len = (uint32_t)pl; r.a = a; r.b = b; r.data_len = (uint32_t)dlen;
    memcpy(logbuf + loglen, &r, sizeof r);
    if (pl) memcpy(logbuf + loglen + sizeof r, path, pl);
    if (dlen) memcpy(logbuf + loglen + sizeof r + pl, data, dlen);
    loglen += tot;
}

/* returns 1 if this call must fail; caller holds mu */
static int want_fault(int cls, int kind) {
    if (f_nth < 0) return 0;
    if (!(f_class & cls) || !(f_kind & kind)) return 0;
    if (f_seen++ == f_nth) { f_nth = -1; f_hit_seq = seqno + 1; return 1; }
    return 0;
}

static uint64_t rnd(void) { dseed ^= dseed << 13; dseed ^= dseed >> 7; dseed ^= dseed << 17; return dseed; }
static void maybe_delay(int cls, int kind, int when) {
    if (!ndrules) return;
    uint64_t us = 0;
    pthread_mutex_lock(&mu);
    for (int i = 0; i < ndrules; i++) {
        struct drule *d = &drules[i];
        if (!(d->cls & cls) || !(d->kind & kind) || !(d->when & when)) continue;
        if (rnd() % 1000000 < d->prob_ppm) { us += d->min_us + (d->max_us > d->min_us ? rnd() % (d->max_us - d->min_us) : 0); delays_done++; }
    }
    pthread_mutex_unlock(&mu);
    if (us) { struct timespec ts = { us / 1000000, (us % 1000000) * 1000 }; nanosleep(&ts, NULL); }
}

static void set_fd(int fd, const char *path) {
    if (fd < 0 || fd >= MAXFD) return;
    char *np = path ? strdup(path) : NULL;
    char *old = __atomic_exchange_n(&fdtab[fd], np, __ATOMIC_ACQ_REL);
    free(old);
}

/* ---------------------------------------------------------------- open */
static int do_open(const char *which, int dirfd, const char *path, int flags, mode_t mode) {
    REAL(int, open, const char *, int, ...);
    REAL(int, open64, const char *, int, ...);
    REAL(int, openat, int, const char *, int, ...);
    REAL(int, openat64, int, const char *, int, ...);
    int w = (dirfd == AT_FDCWD || (path && path[0] == '/')) && is_watched(path);
    if (!w) {
        int fd;
        if (which[4] == 'a') fd = (strcmp(which, "openat64") == 0 ? real_openat64 : real_openat)(dirfd, path, flags, mode);
        else fd = (strcmp(which, "open64") == 0 ? real_open64 : real_open)(path, flags, mode);
        if (fd >= 0 && fd < MAXFD && fdpath(fd)) set_fd(fd, NULL); /* stale entry */
        return fd;
    }
    int creating = (flags & O_CREAT) != 0;
    int cls = creating ? C_CREATE : C_OPENRD, kind = kind_of(path);
    maybe_delay(cls, kind, 1);
    pthread_mutex_lock(&mu);
    int fd, err = 0, fl = 0;
    if (want_fault(cls, kind)) { fd = -1; err = f_errno; fl |= RF_INJECTED; }
    else { fd = real_open64(path, flags, mode); err = fd < 0 ? errno : 0; }
    if (creating || (flags & (O_WRONLY | O_RDWR | O_TRUNC))) fl |= RF_MUTATING;
    put_rec(K_OPEN, fl, fd, path, fd, err, (uint64_t)flags, (uint64_t)mode, NULL, 0);
    if (fd >= 0) set_fd(fd, path);
    pthread_mutex_unlock(&mu);
    maybe_delay(cls, kind, 2);
    if (fd < 0) errno = err;
    return fd;
}
#define OPEN_BODY(name, dirfd) \
    mode_t mode = 0; \
    if (flags & (O_CREAT | O_TMPFILE)) { va_list ap; va_start(ap, flags); mode = va_arg(ap, mode_t); va_end(ap); } \
    return do_open(name, dirfd, path, flags, mode);
int open(const char *path, int flags, ...) { OPEN_BODY("open", AT_FDCWD) }
int open64(const char *path, int flags, ...) { OPEN_BODY("open64", AT_FDCWD) }
int openat(int dirfd, const char *path, int flags, ...) { OPEN_BODY("openat", dirfd) }
int openat64(int dirfd, const char *path, int flags, ...) { OPEN_BODY("openat64", dirfd) }
int creat(const char *path, mode_t mode) { return do_open("open", AT_FDCWD, path, O_CREAT | O_WRONLY | O_TRUNC, mode); }
int creat64(const char *path, mode_t mode) { return do_open("open64", AT_FDCWD, path, O_CREAT | O_WRONLY | O_TRUNC, mode); }

/* ---------------------------------------------------------------- write family */
static ssize_t do_write(int fd, const void *buf, size_t n, int positional, off_t off) {
    REAL(ssize_t, write, int, const void *, size_t);
    REAL(ssize_t, pwrite64, int, const void *, size_t, off_t);
    char *p = fdpath(fd);
    if (!p || !enabled) return positional ? real_pwrite64(fd, buf, n, off) : real_write(fd, buf, n);
    int kind = kind_of(p);
    maybe_delay(C_WRITE, kind, 1);
    pthread_mutex_lock(&mu);
    p = fdpath(fd);
    ssize_t r; int err = 0, fl = RF_MUTATING;
    if (want_fault(C_WRITE, kind)) { r = -1; err = f_errno; fl |= RF_INJECTED; }
    else {
        size_t m = n;
        /* a short count is a legal outcome of write(2); the caller has to come back with the rest */
        if (s_ppm && n >= 2 && srnd() % 1000000 < s_ppm) { m = 1 + (size_t)(srnd() % (n - 1)); shorts_done++; }
        r = positional ? real_pwrite64(fd, buf, m, off) : real_write(fd, buf, m); err = r < 0 ? errno : 0;
    }
    put_rec(positional ? K_PWRITE : K_WRITE, fl, fd, p, r, err, (uint64_t)off, (uint64_t)n, buf, r > 0 ? (size_t)r : 0);
    pthread_mutex_unlock(&mu);
    maybe_delay(C_WRITE, kind, 2);
    if (r < 0) errno = err;
    return r;
}
ssize_t write(int fd, const void *buf, size_t n) { return do_write(fd, buf, n, 0, 0); }
ssize_t pwrite(int fd, const void *buf, size_t n, off_t off) { return do_write(fd, buf, n, 1, off); }
ssize_t pwrite64(int fd, const void *buf, size_t n, off_t off) { return do_write(fd, buf, n, 1, off); }
/* reads are not logged; in short mode a read of a watched file may return less than asked (legal) */
static uint64_t short_reads_done;
ssize_t read(int fd, void *buf, size_t n) {
    REAL(ssize_t, read, int, void *, size_t);
    char *p = fdpath(fd);
    if (!p || !enabled || !s_ppm || n < 2) return real_read(fd, buf, n);
    size_t m = n;
    pthread_mutex_lock(&mu);
    if (srnd() % 1000000 < s_ppm) { m = 1 + (size_t)(srnd() % (n - 1)); short_reads_done++; }
    pthread_mutex_unlock(&mu);
    return real_read(fd, buf, m);
}
static ssize_t do_writev(int fd, const struct iovec *iov, int cnt, int positional, off_t off) {
    REAL(ssize_t, writev, int, const struct iovec *, int);
    REAL(ssize_t, pwritev, int, const struct iovec *, int, off_t);
    char *p = fdpath(fd);
    if (!p || !enabled) return positional ? real_pwritev(fd, iov, cnt, off) : real_writev(fd, iov, cnt);
    /* gather, then issue as one plain write so that the log holds the bytes */
    size_t tot = 0; for (int i = 0; i < cnt; i++) tot += iov[i].iov_len;
    uint8_t *tmp = malloc(tot ? tot : 1); size_t o = 0;
    for (int i = 0; i < cnt; i++) { memcpy(tmp + o, iov[i].iov_base, iov[i].iov_len); o += iov[i].iov_len; }
    ssize_t r = do_write(fd, tmp, tot, positional, off);
    int e = errno; free(tmp); errno = e;
    return r;
}
ssize_t writev(int fd, const struct iovec *iov, int cnt) { return do_writev(fd, iov, cnt, 0, 0); }
ssize_t pwritev(int fd, const struct iovec *iov, int cnt, off_t off) { return do_writev(fd, iov, cnt, 1, off); }
ssize_t pwritev64(int fd, const struct iovec *iov, int cnt, off_t off) { return do_writev(fd, iov, cnt, 1, off); }

/* ---------------------------------------------------------------- sync family */
static int do_sync(int which, int fd) {
    REAL(int, fsync, int);
    REAL(int, fdatasync, int);
    char *p = fdpath(fd);
    if (!p || !enabled) return which == K_FSYNC ? real_fsync(fd) : real_fdatasync(fd);
    int kind = kind_of(p);
    maybe_delay(C_FSYNC, kind, 1);
    pthread_mutex_lock(&mu);
    p = fdpath(fd);
    int r, err = 0, fl = RF_MUTATING;
    if (want_fault(C_FSYNC, kind)) { r = -1; err = f_errno; fl |= RF_INJECTED; }
    else { r = which == K_FSYNC ? real_fsync(fd) : real_fdatasync(fd); err = r < 0 ? errno : 0; }
    put_rec(which, fl, fd, p, r, err, 0, 0, NULL, 0);
    pthread_mutex_unlock(&mu);
    maybe_delay(C_FSYNC, kind, 2);
    if (r < 0) errno = err;
    return r;
}
int fsync(int fd) { return do_sync(K_FSYNC, fd); }
int fdatasync(int fd) { return do_sync(K_FDATASYNC, fd); }
int sync_file_range(int fd, off64_t off, off64_t n, unsigned int flags) {
    REAL(int, sync_file_range, int, off64_t, off64_t, unsigned int);
    char *p = fdpath(fd);
    int r = real_sync_file_range(fd, off, n, flags);
    if (p && enabled) { int e = errno; pthread_mutex_lock(&mu); put_rec(K_SYNCRANGE, 0, fd, p, r, r < 0 ? e : 0, (uint64_t)off, (uint64_t)n, NULL, 0); pthread_mutex_unlock(&mu); errno = e; }
    return r;
}

/* ---------------------------------------------------------------- truncate family */
static int do_ftruncate(int fd, off_t len) {
    REAL(int, ftruncate64, int, off_t);
    char *p = fdpath(fd);
    if (!p || !enabled) return real_ftruncate64(fd, len);
    pthread_mutex_lock(&mu);
    int r = real_ftruncate64(fd, len); int err = r < 0 ? errno : 0;
    put_rec(K_FTRUNCATE, RF_MUTATING, fd, p, r, err, (uint64_t)len, 0, NULL, 0);
    pthread_mutex_unlock(&mu);
    if (r < 0) errno = err;
    return r;
}
int ftruncate(int fd, off_t len) { return do_ftruncate(fd, len); }
int ftruncate64(int fd, off_t len) { return do_ftruncate(fd, len); }
static int do_truncate(const char *path, off_t len) {
    REAL(int, truncate64, const char *, off_t);
    if (!is_watched(path)) return real_truncate64(path, len);
    pthread_mutex_lock(&mu);
    int r = real_truncate64(path, len); int err = r < 0 ? errno : 0;
    put_rec(K_TRUNCATE, RF_MUTATING, -1, path, r, err, (uint64_t)len, 0, NULL, 0);
    pthread_mutex_unlock(&mu);
    if (r < 0) errno = err;
    return r;
}
int truncate(const char *path, off_t len) { return do_truncate(path, len); }
int truncate64(const char *path, off_t len) { return do_truncate(path, len); }
static int do_fallocate(int fd, int mode, off_t off, off_t len) {
    REAL(int, fallocate64, int, int, off_t, off_t);
    char *p = fdpath(fd);
    if (!p || !enabled) return real_fallocate64(fd, mode, off, len);
    pthread_mutex_lock(&mu);
    int r = real_fallocate64(fd, mode, off, len); int err = r < 0 ? errno : 0;
    put_rec(K_FALLOCATE, RF_MUTATING, fd, p, r, err, (uint64_t)off, (uint64_t)len, NULL, 0);
    pthread_mutex_unlock(&mu);
    if (r < 0) errno = err;
    return r;
}
int fallocate(int fd, int mode, off_t off, off_t len) { return do_fallocate(fd, mode, off, len); }
int fallocate64(int fd, int mode, off_t off, off_t len) { return do_fallocate(fd, mode, off, len); }
int posix_fallocate(int fd, off_t off, off_t len) { int r = do_fallocate(fd, 0, off, len); return r < 0 ? errno : 0; }
int posix_fallocate64(int fd, off_t off, off_t len) { int r = do_fallocate(fd, 0, off, len); return r < 0 ? errno : 0; }

/* ---------------------------------------------------------------- names */
static int do_rename(int k, const char *a, const char *b) {
    REAL(int, rename, const char *, const char *);
    REAL(int, link, const char *, const char *);
    if (!is_watched(a) && !is_watched(b)) return k == K_RENAME ? real_rename(a, b) : real_link(a, b);
    pthread_mutex_lock(&mu);
    int r = k == K_RENAME ? real_rename(a, b) : real_link(a, b); int err = r < 0 ? errno : 0;
    put_rec(k, RF_MUTATING, -1, a, r, err, 0, 0, b, strlen(b));
    pthread_mutex_unlock(&mu);
    if (r < 0) errno = err;
    return r;
}
int rename(const char *a, const char *b) { return do_rename(K_RENAME, a, b); }
int link(const char *a, const char *b) { return do_rename(K_LINK, a, b); }
int renameat(int ad, const char *a, int bd, const char *b) {
    REAL(int, renameat, int, const char *, int, const char *);
    if ((is_watched(a) || is_watched(b)) && a[0] == '/' && b[0] == '/') return do_rename(K_RENAME, a, b);
    return real_renameat(ad, a, bd, b);
}
int renameat2(int ad, const char *a, int bd, const char *b, unsigned int flags) {
    REAL(int, renameat2, int, const char *, int, const char *, unsigned int);
    if ((is_watched(a) || is_watched(b)) && a[0] == '/' && b[0] == '/' && flags == 0) return do_rename(K_RENAME, a, b);
    if (is_watched(a) || is_watched(b)) { pthread_mutex_lock(&mu); put_rec(K_UNSUPPORTED, 0, -1, a, 0, 0, 1, 0, NULL, 0); pthread_mutex_unlock(&mu); }
    return real_renameat2(ad, a, bd, b, flags);
}
int linkat(int ad, const char *a, int bd, const char *b, int flags) {
    REAL(int, linkat, int, const char *, int, const char *, int);
    if ((is_watched(a) || is_watched(b)) && a[0] == '/' && b[0] == '/') return do_rename(K_LINK, a, b);
    return real_linkat(ad, a, bd, b, flags);
}
static int do_unlink(const char *path) {
    REAL(int, unlink, const char *);
    if (!is_watched(path)) return real_unlink(path);
    int kind = kind_of(path);
    maybe_delay(C_UNLINK, kind, 1);
    pthread_mutex_lock(&mu);
    int r, err = 0, fl = RF_MUTATING;
    if (want_fault(C_UNLINK, kind)) { r = -1; err = f_errno; fl |= RF_INJECTED; }
    else { r = real_unlink(path); err = r < 0 ? errno : 0; }
    put_rec(K_UNLINK, fl, -1, path, r, err, 0, 0, NULL, 0);
    pthread_mutex_unlock(&mu);
    maybe_delay(C_UNLINK, kind, 2);
    if (r < 0) errno = err;
    return r;
}
int unlink(const char *path) { return do_unlink(path); }
int unlinkat(int dirfd, const char *path, int flags) {
    REAL(int, unlinkat, int, const char *, int);
    if (flags == 0 && path && path[0] == '/' && is_watched(path)) return do_unlink(path);
    return real_unlinkat(dirfd, path, flags);
}

/* ---------------------------------------------------------------- mmap */
static void *do_mmap(void *a, size_t len, int prot, int flags, int fd, off_t off) {
    REAL(void *, mmap64, void *, size_t, int, int, int, off_t);
    char *p = fd >= 0 ? fdpath(fd) : NULL;
    if (!p || !enabled) return real_mmap64(a, len, prot, flags, fd, off);
    int kind = kind_of(p);
    maybe_delay(C_MMAP, kind, 1);
    pthread_mutex_lock(&mu);
    int inj = want_fault(C_MMAP, kind);
    pthread_mutex_unlock(&mu);
    void *r; int e;
    if (inj) { r = MAP_FAILED; e = f_errno; }
    else { r = real_mmap64(a, len, prot, flags, fd, off); e = errno; }
    pthread_mutex_lock(&mu);
    p = fdpath(fd);
    int fl = ((prot & PROT_WRITE) && (flags & MAP_SHARED)) ? RF_MUTATING : 0;
    if (inj) fl |= RF_INJECTED;
    put_rec(K_MMAP, fl, fd, p, r == MAP_FAILED ? -1 : 0, r == MAP_FAILED ? e : 0, ((uint64_t)(uint32_t)prot << 32) | (uint32_t)flags, (uint64_t)len, NULL, 0);
    pthread_mutex_unlock(&mu);
    maybe_delay(C_MMAP, kind, 2);
    errno = e;
    return r;
}
void *mmap(void *a, size_t len, int prot, int flags, int fd, off_t off) { return do_mmap(a, len, prot, flags, fd, off); }
void *mmap64(void *a, size_t len, int prot, int flags, int fd, off_t off) { return do_mmap(a, len, prot, flags, fd, off); }

/* ---------------------------------------------------------------- fd-to-fd copies: not modelled, flagged */
static void flag_unsupported(int fd, int which) {
    char *p = fdpath(fd);
    if (p && enabled) { pthread_mutex_lock(&mu); put_rec(K_UNSUPPORTED, 0, fd, p, 0, 0, (uint64_t)which, 0, NULL, 0); pthread_mutex_unlock(&mu); }
}
ssize_t copy_file_range(int in, off64_t *oi, int out, off64_t *oo, size_t n, unsigned int fl) {
    REAL(ssize_t, copy_file_range, int, off64_t *, int, off64_t *, size_t, unsigned int);
    flag_unsupported(out, 2);
    return real_copy_file_range(in, oi, out, oo, n, fl);
}
ssize_t sendfile(int out, int in, off_t *off, size_t n) {
    REAL(ssize_t, sendfile, int, int, off_t *, size_t);
    flag_unsupported(out, 3);
    return real_sendfile(out, in, off, n);
}
ssize_t sendfile64(int out, int in, off_t *off, size_t n) {
    REAL(ssize_t, sendfile64, int, int, off_t *, size_t);
    flag_unsupported(out, 3);
    return real_sendfile64(out, in, off, n);
}
ssize_t splice(int in, off64_t *oi, int out, off64_t *oo, size_t n, unsigned int fl) {
    REAL(ssize_t, splice, int, off64_t *, int, off64_t *, size_t, unsigned int);
    flag_unsupported(out, 4);
    return real_splice(in, oi, out, oo, n, fl);
}

/* ---------------------------------------------------------------- dup / close */
static void note_dup(int oldfd, int newfd) {
    char *p = fdpath(oldfd);
    if (newfd < 0) return;
    if (p && enabled) {
        pthread_mutex_lock(&mu);
        p = fdpath(oldfd);
        put_rec(K_DUP, 0, newfd, p, newfd, 0, (uint64_t)oldfd, 0, NULL, 0);
        set_fd(newfd, p);
        pthread_mutex_unlock(&mu);
    } else if (fdpath(newfd)) set_fd(newfd, NULL);
}
int dup(int fd) { REAL(int, dup, int); int r = real_dup(fd); int e = errno; note_dup(fd, r); errno = e; return r; }
int dup2(int fd, int nfd) { REAL(int, dup2, int, int); int r = real_dup2(fd, nfd); int e = errno; if (r >= 0 && fd != nfd) note_dup(fd, r); errno = e; return r; }
int dup3(int fd, int nfd, int fl) { REAL(int, dup3, int, int, int); int r = real_dup3(fd, nfd, fl); int e = errno; note_dup(fd, r); errno = e; return r; }
static int do_fcntl(int fd, int cmd, long arg, int is64) {
    REAL(int, fcntl, int, int, ...);
    REAL(int, fcntl64, int, int, ...);
    int r = is64 && real_fcntl64 ? real_fcntl64(fd, cmd, arg) : real_fcntl(fd, cmd, arg);
    if (cmd == F_DUPFD || cmd == F_DUPFD_CLOEXEC) { int e = errno; note_dup(fd, r); errno = e; }
    return r;
}
int fcntl(int fd, int cmd, ...) { va_list ap; va_start(ap, cmd); long arg = va_arg(ap, long); va_end(ap); return do_fcntl(fd, cmd, arg, 0); }
int fcntl64(int fd, int cmd, ...) { va_list ap; va_start(ap, cmd); long arg = va_arg(ap, long); va_end(ap); return do_fcntl(fd, cmd, arg, 1); }
int close(int fd) {
    REAL(int, close, int);
    char *p = fdpath(fd);
    if (!p) return real_close(fd);
    pthread_mutex_lock(&mu);
    p = fdpath(fd);
    if (p && enabled) put_rec(K_CLOSE, 0, fd, p, 0, 0, 0, 0, NULL, 0);
    set_fd(fd, NULL);
    int r = real_close(fd);
    int e = errno;
    pthread_mutex_unlock(&mu);
    errno = e;
    return r;
}

/* ---------------------------------------------------------------- control surface */
void iorec_watch(const char *dir) {
    pthread_mutex_lock(&mu);
    if (dir) { strncpy(watch, dir, sizeof watch - 2); watch_len = strlen(watch); enabled = 1; }
    else { watch_len = 0; enabled = 0; }
    pthread_mutex_unlock(&mu);
}
void iorec_record_data(int on) { record_data = on; }
void iorec_mark(uint32_t tag, uint64_t a, uint64_t b) {
    pthread_mutex_lock(&mu);
    put_rec(K_MARK, 0, (int)tag, NULL, 0, 0, a, b, NULL, 0);
    pthread_mutex_unlock(&mu);
}
size_t iorec_log_size(void) { pthread_mutex_lock(&mu); size_t n = loglen; pthread_mutex_unlock(&mu); return n; }
size_t iorec_log_copy(uint8_t *dst, size_t cap) {
    pthread_mutex_lock(&mu);
    size_t n = loglen < cap ? loglen : cap;
    memcpy(dst, logbuf, n);
    pthread_mutex_unlock(&mu);
    return n;
}
void iorec_log_reset(void) { pthread_mutex_lock(&mu); loglen = 0; seqno = 0; pthread_mutex_unlock(&mu); }
void iorec_fail(uint32_t class_mask, uint32_t kind_mask, int64_t nth, int err) {
    pthread_mutex_lock(&mu);
    f_class = class_mask; f_kind = kind_mask; f_nth = nth; f_seen = 0; f_errno = err; f_hit_seq = 0;
    pthread_mutex_unlock(&mu);
}
/* 0 = not injected (yet); otherwise 1 + seq of the injected record */
uint64_t iorec_fail_hit(void) { pthread_mutex_lock(&mu); uint64_t h = f_hit_seq; pthread_mutex_unlock(&mu); return h; }
void iorec_delay_clear(void) { pthread_mutex_lock(&mu); ndrules = 0; pthread_mutex_unlock(&mu); }
void iorec_delay_add(uint32_t cls, uint32_t kind, uint32_t when, uint32_t prob_ppm, uint32_t min_us, uint32_t max_us) {
    pthread_mutex_lock(&mu);
    if (ndrules < 16) { struct drule d = { cls, kind, when, prob_ppm, min_us, max_us }; drules[ndrules++] = d; }
    pthread_mutex_unlock(&mu);
}
void iorec_seed(uint64_t s) { pthread_mutex_lock(&mu); dseed = s ? s : 88172645463325252ULL; pthread_mutex_unlock(&mu); }
uint64_t iorec_delays_done(void) { return delays_done; }
void iorec_short(uint32_t ppm, uint64_t seed) { pthread_mutex_lock(&mu); s_ppm = ppm; if (seed) s_seed = seed; pthread_mutex_unlock(&mu); }
uint64_t iorec_shorts_done(void) { return shorts_done; }
uint64_t iorec_short_reads_done(void) { return short_reads_done; }
int iorec_present(void) { return 1; }

//! Independent decoder of the on-disk formats. Shares no code with /repo.
//!
//! data record:  i64 timestamp | u64 key length | key | u8 tag (0 tombstone, 1 value) | [u64 value length | value]
//! hint record:  i64 timestamp | u64 entry length | u64 entry offset | u64 key length | key
//! All integers little-endian, fixed width.

#![allow(dead_code)]

use std::collections::{BTreeMap, HashMap};
use std::path::Path;

use crate::store::{list_dir, parse_name};

#[derive(Clone, Debug, PartialEq, Eq)]
pub struct DataRec {
    pub pos: u64,
    pub len: u64,
    pub tstamp: i64,
    pub key: Vec<u8>,
    pub value: Option<Vec<u8>>,
}

#[derive(Clone, Debug, PartialEq, Eq)]
pub struct HintRec {
    pub hpos: u64,
    pub tstamp: i64,
    pub len: u64,
    pub pos: u64,
    pub key: Vec<u8>,
}

#[derive(Clone, Copy, Debug, PartialEq, Eq)]
pub enum Tail {
    /// the file ends exactly at a record boundary
    Clean,
    /// the file ends inside a record that starts at this offset
    Torn(u64),
    /// bytes at this offset cannot be a record (bad tag or absurd length)
    Bad(u64),
}

fn u64_at(b: &[u8], o: usize) -> Option<u64> {
    b.get(o..o + 8).map(|s| u64::from_le_bytes(s.try_into().unwrap()))
}

pub fn scan_data_bytes(b: &[u8]) -> (Vec<DataRec>, Tail) {
    let mut out = Vec::new();
    let mut o = 0usize;
    while o < b.len() {
        let start = o;
        let ts = match u64_at(b, o) {
            Some(x) => x as i64,
            None => return (out, Tail::Torn(start as u64)),
        };
        let kl = match u64_at(b, o + 8) {
            Some(x) => x,
            None => return (out, Tail::Torn(start as u64)),
        };
        if kl > (1 << 40) {
            return (out, Tail::Bad(start as u64));
        }
        let kl = kl as usize;
        let ko = o + 16;
        if ko + kl + 1 > b.len() {
            return (out, Tail::Torn(start as u64));
        }
        let key = b[ko..ko + kl].to_vec();
        let tag = b[ko + kl];
        let mut p = ko + kl + 1;
        let value = match tag {
            0 => None,
            1 => {
                let vl = match u64_at(b, p) {
                    Some(x) => x,
                    None => return (out, Tail::Torn(start as u64)),
                };
                if vl > (1 << 40) {
                    return (out, Tail::Bad(start as u64));
                }
                let vl = vl as usize;
                p += 8;
                if p + vl > b.len() {
                    return (out, Tail::Torn(start as u64));
                }
                let v = b[p..p + vl].to_vec();
                p += vl;
                Some(v)
            }
            _ => return (out, Tail::Bad(start as u64)),
        };
        out.push(DataRec { pos: start as u64, len: (p - start) as u64, tstamp: ts, key, value });
        o = p;
    }
    (out, Tail::Clean)
}

pub fn scan_hint_bytes(b: &[u8]) -> (Vec<HintRec>, Tail) {
    let mut out = Vec::new();
    let mut o = 0usize;
    while o < b.len() {
        let start = o;
        let (ts, len, pos, kl) = match (u64_at(b, o), u64_at(b, o + 8), u64_at(b, o + 16), u64_at(b, o + 24)) {
            (Some(a), Some(l), Some(p), Some(k)) => (a as i64, l, p, k),
            _ => return (out, Tail::Torn(start as u64)),
        };
        if kl > (1 << 40) {
            return (out, Tail::Bad(start as u64));
        }
        let kl = kl as usize;
        if o + 32 + kl > b.len() {
            return (out, Tail::Torn(start as u64));
        }
        out.push(HintRec { hpos: start as u64, tstamp: ts, len, pos, key: b[o + 32..o + 32 + kl].to_vec() });
        o += 32 + kl;
    }
    (out, Tail::Clean)
}

/// Size on disk of a record holding this pair.
pub fn rec_size(key: &[u8], value: Option<&[u8]>) -> u64 {
    (8 + 8 + key.len() + 1 + value.map(|v| 8 + v.len()).unwrap_or(0)) as u64
}

#[derive(Clone, Debug)]
pub struct FileScan {
    pub id: u64,
    pub size: u64,
    pub recs: Vec<DataRec>,
    pub tail: Tail,
    pub hint: Option<(Vec<HintRec>, Tail, u64)>,
}

/// Every data file of a directory (ascending id) with its records, plus its hint file if present.
pub fn scan_dir(dir: &Path) -> BTreeMap<u64, FileScan> {
    let mut out = BTreeMap::new();
    let names = list_dir(dir);
    for (name, size) in &names {
        if let Some((id, true)) = parse_name(name) {
            let bytes = std::fs::read(dir.join(name)).unwrap_or_default();
            let (recs, tail) = scan_data_bytes(&bytes);
            out.insert(id, FileScan { id, size: *size, recs, tail, hint: None });
        }
    }
    for (name, size) in &names {
        if let Some((id, false)) = parse_name(name) {
            if let Some(fs) = out.get_mut(&id) {
                let bytes = std::fs::read(dir.join(name)).unwrap_or_default();
                let (recs, tail) = scan_hint_bytes(&bytes);
                fs.hint = Some((recs, tail, *size));
            }
        }
    }
    out
}

#[derive(Clone, Debug, PartialEq, Eq)]
pub struct Loc {
    pub fileid: u64,
    pub pos: u64,
    pub len: u64,
    pub value: Vec<u8>,
}

/// What a correct full scan of the data files (ascending id, in-file order, tombstones applied)
/// says the store contains.
pub fn truth_from_scan(files: &BTreeMap<u64, FileScan>) -> HashMap<Vec<u8>, Loc> {
    let mut m = HashMap::new();
    for (id, f) in files {
        for r in &f.recs {
            match &r.value {
                Some(v) => {
                    m.insert(r.key.clone(), Loc { fileid: *id, pos: r.pos, len: r.len, value: v.clone() });
                }
                None => {
                    m.remove(&r.key);
                }
            }
        }
    }
    m
}

pub fn total_data_size(dir: &Path) -> u64 {
    list_dir(dir).iter().filter(|(n, _)| matches!(parse_name(n), Some((_, true)))).map(|(_, s)| *s).sum()
}

pub fn data_ids(dir: &Path) -> Vec<u64> {
    let mut v: Vec<u64> = list_dir(dir).iter().filter_map(|(n, _)| match parse_name(n) { Some((id, true)) => Some(id), _ => None }).collect();
    v.sort();
    v
}
pub fn hint_ids(dir: &Path) -> Vec<u64> {
    let mut v: Vec<u64> = list_dir(dir).iter().filter_map(|(n, _)| match parse_name(n) { Some((id, false)) => Some(id), _ => None }).collect();
    v.sort();
    v
}

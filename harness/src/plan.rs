//! Pre-generated single-threaded operation plans, and a runner that executes one against the real
//! store with the I/O recorder on and begin/end marks around every operation. Used by the
//! crash-point, power-loss, file-discipline and fault-injection checks.

#![allow(dead_code)]

use std::collections::HashMap;
use std::path::Path;

use serde_json::{json, Value};

use crate::orch::show;
use crate::rng::Rng;
use crate::seqeng::{draw_keys, draw_value_size, make_value};
use crate::shim::{self, Ev};
use crate::store::{draw_thresholds, Conf, OpErr, Store, SyncMode};

#[derive(Clone, Debug)]
pub enum POp {
    Set { k: usize, v: Vec<u8> },
    Del { k: usize },
    Get { k: usize },
    Merge,
    Reopen(Conf),
}

impl POp {
    pub fn brief(&self) -> String {
        match self {
            POp::Set { k, v } => format!("set k{} {}B", k, v.len()),
            POp::Del { k } => format!("del k{}", k),
            POp::Get { k } => format!("get k{}", k),
            POp::Merge => "merge".into(),
            POp::Reopen(_) => "reopen".into(),
        }
    }
    pub fn key(&self) -> Option<usize> {
        match self {
            POp::Set { k, .. } | POp::Del { k } | POp::Get { k } => Some(*k),
            _ => None,
        }
    }
    pub fn mutates(&self) -> bool {
        matches!(self, POp::Set { .. } | POp::Del { .. })
    }
}

#[derive(Clone, Debug)]
pub struct Plan {
    pub conf: Conf,
    pub keys: Vec<Vec<u8>>,
    pub ops: Vec<POp>,
}

pub struct PlanOpts {
    pub min_ops: u64,
    pub max_ops: u64,
    pub sync: SyncMode,
    pub merge_pct: u64,
    pub reopen_pct: u64,
    pub big_ok: bool,
    pub huge_values: bool,
}

fn small_conf(r: &mut Rng, sync: &SyncMode) -> Conf {
    let mut c = Conf::default();
    c.max_file_size = *r.pick(&[0u64, 64, 150, 300, 300, 1000, 4096, 30_000, 2 * 1024 * 1024 * 1024]);
    c.cache = *r.pick(&[0usize, 1, 256]);
    c.conc = *r.pick(&[1usize, 2]);
    c.sync = sync.clone();
    draw_thresholds(r, &mut c);
    c
}

pub fn gen_plan(r: &mut Rng, o: &PlanOpts) -> Plan {
    let conf = small_conf(r, &o.sync);
    let mut keys = draw_keys(r, false, o.big_ok);
    // plans are rerun once per crash point or fault position: keys beyond the 64 KiB sizes would
    // multiply hundreds of reruns by megabytes per operation (C20 took 4 minutes at one seed)
    for k in keys.iter_mut() {
        k.truncate(70_000);
    }
    let n = r.range(o.min_ops, o.max_ops);
    let mut ops = Vec::new();
    let mut counter = 0u64;
    for _ in 0..n {
        let x = r.below(100);
        if x < o.merge_pct {
            ops.push(POp::Merge);
        } else if x < o.merge_pct + o.reopen_pct {
            ops.push(POp::Reopen(small_conf(r, &o.sync)));
        } else {
            let k = r.usize_below(keys.len());
            match r.weighted(&[55, 25, 20]) {
                0 => {
                    counter += 1;
                    let mut sz = draw_value_size(r, o.big_ok);
                    if !o.huge_values && sz > 30_000 {
                        sz = r.range(8100, 20_000) as usize;
                    }
                    ops.push(POp::Set { k, v: make_value(r, counter, sz) });
                }
                1 => ops.push(POp::Del { k }),
                _ => ops.push(POp::Get { k }),
            }
        }
    }
    Plan { conf, keys, ops }
}

#[derive(Clone, Debug, PartialEq)]
pub enum OpRes {
    Unit,
    Bool(bool),
    Val(Option<Vec<u8>>),
    Err(String),
    /// the operation panicked
    Panic(String),
}

impl OpRes {
    pub fn is_err(&self) -> bool {
        matches!(self, OpRes::Err(_) | OpRes::Panic(_))
    }
    pub fn brief(&self) -> String {
        match self {
            OpRes::Unit => "ok".into(),
            OpRes::Bool(b) => format!("ok({})", b),
            OpRes::Val(Some(v)) => format!("ok({}B)", v.len()),
            OpRes::Val(None) => "ok(nothing)".into(),
            OpRes::Err(e) => format!("err({})", e),
            OpRes::Panic(e) => format!("PANIC({})", e),
        }
    }
}

fn conv<T>(r: Result<T, OpErr>, f: impl FnOnce(T) -> OpRes) -> OpRes {
    match r {
        Ok(x) => f(x),
        Err(e) => OpRes::Err(format!("{:?}", e)),
    }
}

pub struct Runner {
    pub st: Option<Store>,
    pub conf: Conf,
}

/// Execute one operation of a plan (panics are caught and reported as a result).
pub fn exec_op(run: &mut Runner, dir: &Path, keys: &[Vec<u8>], op: &POp) -> OpRes {
    let res = std::panic::catch_unwind(std::panic::AssertUnwindSafe(|| match op {
        POp::Set { k, v } => match &run.st {
            Some(s) => conv(s.set(&keys[*k], v), |_| OpRes::Unit),
            None => OpRes::Err("store not open".into()),
        },
        POp::Del { k } => match &run.st {
            Some(s) => conv(s.del(&keys[*k]), OpRes::Bool),
            None => OpRes::Err("store not open".into()),
        },
        POp::Get { k } => match &run.st {
            Some(s) => conv(s.get(&keys[*k]), OpRes::Val),
            None => OpRes::Err("store not open".into()),
        },
        POp::Merge => match &run.st {
            Some(s) => conv(s.merge(), |_| OpRes::Unit),
            None => OpRes::Err("store not open".into()),
        },
        POp::Reopen(c) => {
            if let Some(mut s) = run.st.take() {
                s.close();
                drop(s);
            }
            run.conf = c.clone();
            match Store::open(dir, c) {
                Ok(s) => {
                    run.st = Some(s);
                    OpRes::Unit
                }
                Err(e) => OpRes::Err(e),
            }
        }
    }));
    match res {
        Ok(r) => r,
        Err(_) => OpRes::Panic(crate::last_panic()),
    }
}

pub struct Recorded {
    pub results: Vec<OpRes>,
    pub events: Vec<Ev>,
    /// error of the initial open, if it failed
    pub open_err: Option<String>,
}

/// Run a plan in `dir` (fresh or pre-existing) with recording on. `before_op(i)` is called before
/// each operation's begin mark (used to arm faults). The store is closed at the end, inside the
/// recording, so the log also holds what closing does.
pub fn run_recorded(dir: &Path, plan: &Plan, record_bytes: bool, mut before_op: impl FnMut(usize)) -> Recorded {
    shim::log_reset();
    shim::record_data(record_bytes);
    shim::watch(Some(dir));
    let mut run = Runner { st: None, conf: plan.conf.clone() };
    let mut results = Vec::new();
    shim::mark(shim::M_OP_BEGIN, u64::MAX, 0);
    let open_err = match Store::open(dir, &plan.conf) {
        Ok(s) => {
            run.st = Some(s);
            None
        }
        Err(e) => Some(e),
    };
    shim::mark(shim::M_OP_END, u64::MAX, open_err.is_none() as u64);
    if open_err.is_none() {
        for (i, op) in plan.ops.iter().enumerate() {
            before_op(i);
            shim::mark(shim::M_OP_BEGIN, i as u64, 0);
            let r = exec_op(&mut run, dir, &plan.keys, op);
            shim::mark(shim::M_OP_END, i as u64, !r.is_err() as u64);
            let panicked = matches!(r, OpRes::Panic(_));
            results.push(r);
            if panicked {
                // a panicking get keeps its reader (the pool shrinks); going on could spin forever
                break;
            }
        }
    }
    if let Some(mut s) = run.st.take() {
        s.close();
        drop(s);
    }
    // the background thread holds the last handle; wait for it so that no call of this store is
    // still in flight when the log is taken
    crate::store::wait_background_threads(0, 5000);
    let events = shim::take_log(dir, true);
    shim::watch(None);
    Recorded { results, events, open_err }
}

/// The map model after the first `n` operations of a plan (only those that succeeded count).
pub fn model_after(plan: &Plan, n: usize, results: Option<&[OpRes]>) -> HashMap<Vec<u8>, Vec<u8>> {
    let mut m = HashMap::new();
    for (i, op) in plan.ops.iter().take(n).enumerate() {
        if let Some(rs) = results {
            if rs.get(i).map(|r| r.is_err()).unwrap_or(true) {
                continue;
            }
        }
        match op {
            POp::Set { k, v } => {
                m.insert(plan.keys[*k].clone(), v.clone());
            }
            POp::Del { k } => {
                m.remove(&plan.keys[*k]);
            }
            _ => {}
        }
    }
    m
}

pub fn plan_json(plan: &Plan) -> Value {
    json!({
        "config": plan.conf.brief(),
        "keys": plan.keys.iter().map(|k| show(k)).collect::<Vec<_>>(),
        "ops": plan.ops.iter().map(|o| o.brief()).collect::<Vec<_>>(),
    })
}

//! Safe face of shim/iorec.c (linked into this binary when the `shim` feature is on).

#![allow(dead_code)]

pub const K_OPEN: u16 = 1;
pub const K_WRITE: u16 = 2;
pub const K_PWRITE: u16 = 3;
pub const K_FSYNC: u16 = 4;
pub const K_FDATASYNC: u16 = 5;
pub const K_FTRUNCATE: u16 = 6;
pub const K_TRUNCATE: u16 = 7;
pub const K_RENAME: u16 = 8;
pub const K_LINK: u16 = 9;
pub const K_UNLINK: u16 = 10;
pub const K_MMAP: u16 = 11;
pub const K_CLOSE: u16 = 12;
pub const K_DUP: u16 = 13;
pub const K_MARK: u16 = 14;
pub const K_FALLOCATE: u16 = 15;
pub const K_UNSUPPORTED: u16 = 16;
pub const K_SYNCRANGE: u16 = 17;

pub const C_WRITE: u32 = 1;
pub const C_CREATE: u32 = 2;
pub const C_FSYNC: u32 = 4;
pub const C_UNLINK: u32 = 8;
pub const C_OPENRD: u32 = 16;
pub const C_MMAP: u32 = 32;

pub const F_DATA: u32 = 1;
pub const F_HINT: u32 = 2;
pub const F_OTHER: u32 = 4;
pub const F_ANY: u32 = 7;

pub const RF_INJECTED: u16 = 1;
pub const RF_MUTATING: u16 = 2;

pub const BEFORE: u32 = 1;
pub const AFTER: u32 = 2;

// marks used by the harness
pub const M_OP_BEGIN: u32 = 1;
pub const M_OP_END: u32 = 2;
pub const M_NOTE: u32 = 3;

#[cfg(feature = "shim")]
extern "C" {
    fn iorec_watch(dir: *const libc::c_char);
    fn iorec_record_data(on: libc::c_int);
    fn iorec_mark(tag: u32, a: u64, b: u64);
    fn iorec_log_size() -> usize;
    fn iorec_log_copy(dst: *mut u8, cap: usize) -> usize;
    fn iorec_log_reset();
    fn iorec_fail(class_mask: u32, kind_mask: u32, nth: i64, err: libc::c_int);
    fn iorec_fail_hit() -> u64;
    fn iorec_delay_clear();
    fn iorec_delay_add(cls: u32, kind: u32, when: u32, prob_ppm: u32, min_us: u32, max_us: u32);
    fn iorec_seed(s: u64);
    fn iorec_delays_done() -> u64;
    fn iorec_short(ppm: u32, seed: u64);
    fn iorec_shorts_done() -> u64;
    fn iorec_short_reads_done() -> u64;
}

#[cfg(not(feature = "shim"))]
mod nolink {
    pub unsafe fn iorec_watch(_: *const libc::c_char) {}
    pub unsafe fn iorec_record_data(_: libc::c_int) {}
    pub unsafe fn iorec_mark(_: u32, _: u64, _: u64) {}
    pub unsafe fn iorec_log_size() -> usize { 0 }
    pub unsafe fn iorec_log_copy(_: *mut u8, _: usize) -> usize { 0 }
    pub unsafe fn iorec_log_reset() {}
    pub unsafe fn iorec_fail(_: u32, _: u32, _: i64, _: libc::c_int) {}
    pub unsafe fn iorec_fail_hit() -> u64 { 0 }
    pub unsafe fn iorec_delay_clear() {}
    pub unsafe fn iorec_delay_add(_: u32, _: u32, _: u32, _: u32, _: u32, _: u32) {}
    pub unsafe fn iorec_seed(_: u64) {}
    pub unsafe fn iorec_delays_done() -> u64 { 0 }
    pub unsafe fn iorec_short(_: u32, _: u64) {}
    pub unsafe fn iorec_shorts_done() -> u64 { 0 }
    pub unsafe fn iorec_short_reads_done() -> u64 { 0 }
}
#[cfg(not(feature = "shim"))]
use nolink::*;

pub fn present() -> bool {
    cfg!(feature = "shim")
}

/// Watch a directory (absolute path). `None` switches recording off.
pub fn watch(dir: Option<&std::path::Path>) {
    match dir {
        Some(d) => {
            let mut s = d.to_str().expect("utf8 path").to_string();
            if !s.ends_with('/') {
                s.push('/');
            }
            let c = std::ffi::CString::new(s).unwrap();
            unsafe { iorec_watch(c.as_ptr()) }
        }
        None => unsafe { iorec_watch(std::ptr::null()) },
    }
}
pub fn record_data(on: bool) {
    unsafe { iorec_record_data(on as libc::c_int) }
}
pub fn mark(tag: u32, a: u64, b: u64) {
    unsafe { iorec_mark(tag, a, b) }
}
pub fn log_reset() {
    unsafe { iorec_log_reset() }
}
/// The `nth` (0-based) watched call from now on that matches both masks fails with `err`.
pub fn fail(class_mask: u32, kind_mask: u32, nth: i64, err: i32) {
    unsafe { iorec_fail(class_mask, kind_mask, nth, err) }
}
pub fn fail_off() {
    unsafe { iorec_fail(0, 0, -1, 0) }
}
/// `Some(seq)` of the injected record once the fault has fired.
pub fn fail_hit() -> Option<u64> {
    let h = unsafe { iorec_fail_hit() };
    if h == 0 {
        None
    } else {
        Some(h - 1)
    }
}
pub fn delay_clear() {
    unsafe { iorec_delay_clear() }
}
pub fn delay_add(cls: u32, kind: u32, when: u32, prob_ppm: u32, min_us: u32, max_us: u32) {
    unsafe { iorec_delay_add(cls, kind, when, prob_ppm, min_us, max_us) }
}
pub fn seed(s: u64) {
    unsafe { iorec_seed(s) }
}
/// From now on a write of two or more bytes to a watched file completes only partly with probability
/// `ppm` / 1e6 (a legal short count; `write_all` comes back with the rest), and a `read` from a watched
/// file returns less than asked with the same probability. 0 switches it off.
pub fn short_writes(ppm: u32, seed: u64) {
    unsafe { iorec_short(ppm, seed) }
}
/// Environment for a whole episode: watch `dir` without keeping bytes and complete 30% of the larger
/// writes only partly. Returned guard switches everything off again and drops the log.
pub struct ShortEnv(u64);
pub fn short_env(dir: &std::path::Path, seed: u64) -> ShortEnv {
    log_reset();
    record_data(false);
    watch(Some(dir));
    short_writes(300_000, seed | 1);
    ShortEnv(shorts_done())
}
impl ShortEnv {
    pub fn done(&self) -> u64 {
        shorts_done() - self.0
    }
}
impl Drop for ShortEnv {
    fn drop(&mut self) {
        short_writes(0, 0);
        watch(None);
        log_reset();
    }
}
pub fn short_reads_done() -> u64 {
    unsafe { iorec_short_reads_done() }
}
pub fn shorts_done() -> u64 {
    unsafe { iorec_shorts_done() }
}
pub fn delays_done() -> u64 {
    unsafe { iorec_delays_done() }
}

/// One decoded record of the shim's log.
#[derive(Clone, Debug)]
pub struct Ev {
    pub kind: u16,
    pub flags: u16,
    pub seq: u64,
    pub t_ns: u64,
    pub tid: i32,
    pub fd: i32,
    pub result: i64,
    pub err: i32,
    /// file name relative to the watched directory (full path if outside it)
    pub name: String,
    pub a: u64,
    pub b: u64,
    pub data: Vec<u8>,
}

impl Ev {
    pub fn injected(&self) -> bool {
        self.flags & RF_INJECTED != 0
    }
    pub fn ok(&self) -> bool {
        self.result >= 0
    }
    pub fn is_mark(&self, tag: u32) -> bool {
        self.kind == K_MARK && self.fd as u32 == tag
    }
    pub fn kind_name(&self) -> &'static str {
        match self.kind {
            K_OPEN => "open",
            K_WRITE => "write",
            K_PWRITE => "pwrite",
            K_FSYNC => "fsync",
            K_FDATASYNC => "fdatasync",
            K_FTRUNCATE => "ftruncate",
            K_TRUNCATE => "truncate",
            K_RENAME => "rename",
            K_LINK => "link",
            K_UNLINK => "unlink",
            K_MMAP => "mmap",
            K_CLOSE => "close",
            K_DUP => "dup",
            K_MARK => "mark",
            K_FALLOCATE => "fallocate",
            K_UNSUPPORTED => "unsupported",
            K_SYNCRANGE => "sync_file_range",
            _ => "?",
        }
    }
    pub fn brief(&self) -> String {
        match self.kind {
            K_MARK => format!("mark({},{},{})", self.fd, self.a, self.b),
            K_OPEN => format!("open({},flags={:#o})={}", self.name, self.a, self.result),
            K_WRITE | K_PWRITE => format!("{}({},n={})={}{}", self.kind_name(), self.name, self.b, self.result, if self.injected() { " INJECTED" } else { "" }),
            _ => format!("{}({})={}{}", self.kind_name(), self.name, self.result, if self.injected() { " INJECTED" } else { "" }),
        }
    }
}

fn rd_u16(b: &[u8], o: usize) -> u16 {
    u16::from_le_bytes(b[o..o + 2].try_into().unwrap())
}
fn rd_u32(b: &[u8], o: usize) -> u32 {
    u32::from_le_bytes(b[o..o + 4].try_into().unwrap())
}
fn rd_u64(b: &[u8], o: usize) -> u64 {
    u64::from_le_bytes(b[o..o + 8].try_into().unwrap())
}

const HDR: usize = 72;

/// Copy the log out of the shim and decode it. `dir` is stripped from paths.
pub fn take_log(dir: &std::path::Path, reset: bool) -> Vec<Ev> {
    let n = unsafe { iorec_log_size() };
    let mut buf = vec![0u8; n];
    let n = unsafe { iorec_log_copy(buf.as_mut_ptr(), buf.len()) };
    buf.truncate(n);
    if reset {
        log_reset();
    }
    let mut prefix = dir.to_str().unwrap().to_string();
    if !prefix.ends_with('/') {
        prefix.push('/');
    }
    let mut out = Vec::new();
    let mut o = 0;
    while o + HDR <= buf.len() {
        let tot = rd_u32(&buf, o) as usize;
        let kind = rd_u16(&buf, o + 4);
        let flags = rd_u16(&buf, o + 6);
        let seq = rd_u64(&buf, o + 8);
        let t_ns = rd_u64(&buf, o + 16);
        let tid = rd_u32(&buf, o + 24) as i32;
        let fd = rd_u32(&buf, o + 28) as i32;
        let result = rd_u64(&buf, o + 32) as i64;
        let err = rd_u32(&buf, o + 40) as i32;
        let pl = rd_u32(&buf, o + 44) as usize;
        let a = rd_u64(&buf, o + 48);
        let b = rd_u64(&buf, o + 56);
        let dl = rd_u32(&buf, o + 64) as usize;
        let p = String::from_utf8_lossy(&buf[o + HDR..o + HDR + pl]).to_string();
        let name = p.strip_prefix(&prefix).map(|s| s.to_string()).unwrap_or(p);
        let data = buf[o + HDR + pl..o + HDR + pl + dl].to_vec();
        out.push(Ev { kind, flags, seq, t_ns, tid, fd, result, err, name, a, b, data });
        o += tot;
    }
    out
}

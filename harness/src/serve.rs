//! `bcverif serve`: the real `bitcask::net::Server` (listener, handlers, commands) over a real store,
//! as a child process. Controlled over stdin, reports over stdout:
//!
//!   -> READY <port>            after the listener is bound
//!   <- shutdown                completes the server's shutdown future
//!   -> RETURNED <micros>       Server::run returned that long after the trigger
//!   <- dump <hexkey> ...       -> VAL <hexkey> <hexvalue|nil|ERR:...> per key, then DUMPED
//!   <- stats                   -> STATS <json>   (shim counters: hint files created, unlinks, delays)
//!   <- fail <cls> <kind> <nth> <errno>   -> ARMED (the nth matching file-system call from now on fails once)
//!   <- fdshort <ms>            -> SHORT <n> once no descriptor can be allocated, RESTORED after <ms>
//!   <- exit                    leave (the store is dropped first)

use std::io::{BufRead, Write};
use std::path::PathBuf;
use std::time::Instant;

use bitcask::storage::KeyValueStorage;
use bytes::Bytes;

use crate::shim;
use crate::store::Conf;

/// A storage that behaves exactly like the real handle, except that a GET of the key
/// `__panic_in_handler__` arms the connection it came from: the next command on that connection makes
/// the connection's own handler task panic (in `storage.clone()`, which the real handler calls in
/// its own task before applying a command). Only used by C15/C10 to end a connection by a panic
/// inside the real `Handler::run`; a SET/DEL of `__panic_in_blocking__` panics on the blocking thread.
pub struct PanickyKv {
    inner: bitcask::storage::bitcask::Handle,
    armed: std::sync::Arc<std::sync::atomic::AtomicBool>,
    parent_armed: std::sync::Arc<std::sync::atomic::AtomicBool>,
}

impl PanickyKv {
    pub fn new(inner: bitcask::storage::bitcask::Handle) -> Self {
        PanickyKv { inner, armed: Default::default(), parent_armed: Default::default() }
    }
}

impl Clone for PanickyKv {
    fn clone(&self) -> Self {
        if self.armed.load(std::sync::atomic::Ordering::SeqCst) {
            panic!("verification harness: panic inside the connection handler task");
        }
        PanickyKv { inner: self.inner.clone(), armed: Default::default(), parent_armed: self.armed.clone() }
    }
}

impl KeyValueStorage for PanickyKv {
    type Error = bitcask::storage::bitcask::Error;
    fn set(&self, key: Bytes, value: Bytes) -> Result<(), Self::Error> {
        if &key[..] == b"__panic_in_blocking__" {
            panic!("verification harness: panic on the blocking thread");
        }
        self.inner.set(key, value)
    }
    fn get(&self, key: Bytes) -> Result<Option<Bytes>, Self::Error> {
        if &key[..] == b"__panic_in_handler__" {
            self.parent_armed.store(true, std::sync::atomic::Ordering::SeqCst);
        }
        self.inner.get(key)
    }
    fn del(&self, key: Bytes) -> Result<bool, Self::Error> {
        if &key[..] == b"__panic_in_blocking__" {
            panic!("verification harness: panic on the blocking thread");
        }
        self.inner.del(key)
    }
}

fn hexs(b: &[u8]) -> String {
    b.iter().map(|x| format!("{:02x}", x)).collect()
}
fn unhex(s: &str) -> Vec<u8> {
    (0..s.len() / 2).map(|i| u8::from_str_radix(&s[2 * i..2 * i + 2], 16).unwrap_or(0)).collect()
}

/// args: <dir> <conf.json text> <port> <max_connections> <worker_threads> [delay:cls,kind,when,ppm,min,max ...]
pub fn main(args: &[String]) -> i32 {
    let dir = PathBuf::from(&args[0]);
    let conf = Conf::from_json(&serde_json::from_str(&args[1]).expect("conf json"));
    let port: u16 = args[2].parse().unwrap();
    let max_conn: usize = args[3].parse().unwrap();
    let threads: usize = args[4].parse().unwrap();
    shim::record_data(false);
    shim::watch(Some(&dir));
    let mut backoff = (1u64, 64u64);
    for a in &args[5..] {
        if let Some(spec) = a.strip_prefix("delay:") {
            let v: Vec<u32> = spec.split(',').map(|x| x.parse().unwrap_or(0)).collect();
            if v.len() == 6 {
                shim::delay_add(v[0], v[1], v[2], v[3], v[4], v[5]);
            }
        } else if let Some(s) = a.strip_prefix("seed:") {
            shim::seed(s.parse().unwrap_or(1));
        } else if let Some(s) = a.strip_prefix("backoff:") {
            let v: Vec<u64> = s.split(',').map(|x| x.parse().unwrap_or(1)).collect();
            if v.len() == 2 {
                backoff = (v[0], v[1]);
            }
        }
    }
    let kv = match conf.to_config(&dir).open() {
        Ok(k) => k,
        Err(e) => {
            println!("OPEN-FAILED {}", e);
            return 3;
        }
    };
    let handle = kv.get_handle();
    let rt = tokio::runtime::Builder::new_multi_thread().worker_threads(threads.max(1)).enable_all().build().expect("runtime");
    let (tx, rx) = tokio::sync::oneshot::channel::<()>();
    let (ret_tx, ret_rx) = std::sync::mpsc::channel::<Instant>();
    let mut nc = bitcask::net::Config::default();
    nc.host = "127.0.0.1".parse().unwrap();
    nc.port = port;
    nc.max_connections = max_conn;
    nc.min_backoff_ms = backoff.0;
    nc.max_backoff_ms = backoff.1;
    // the storage handed to the server: the real handle inside a wrapper that only adds the two
    // panic triggers described at PanickyKv
    let h2 = PanickyKv::new(handle.clone());
    let server = match rt.block_on(nc.async_server(h2, async move {
        let _ = rx.await;
    })) {
        Ok(s) => s,
        Err(e) => {
            println!("BIND-FAILED {}", e);
            return 4;
        }
    };
    let srv_thread = std::thread::spawn(move || {
        rt.block_on(server.run());
        let _ = ret_tx.send(Instant::now());
        // keep the runtime alive until told otherwise? No: run() returned, the server is done.
        drop(rt);
    });
    println!("READY {}", port);
    let _ = std::io::stdout().flush();
    let stdin = std::io::stdin();
    let mut tx = Some(tx);
    for line in stdin.lock().lines() {
        let line = match line {
            Ok(l) => l,
            Err(_) => break,
        };
        let mut it = line.split_whitespace();
        match it.next() {
            Some("shutdown") => {
                let t0 = Instant::now();
                if let Some(t) = tx.take() {
                    let _ = t.send(());
                }
                match ret_rx.recv_timeout(std::time::Duration::from_secs(60)) {
                    Ok(t1) => println!("RETURNED {}", t1.duration_since(t0).as_micros()),
                    Err(_) => println!("NOT-RETURNED 60s"),
                }
            }
            Some("dump") => {
                for hk in it {
                    let k = unhex(hk);
                    match KeyValueStorage::get(&handle, Bytes::from(k)) {
                        Ok(Some(v)) => println!("VAL {} ={}", hk, hexs(&v)),
                        Ok(None) => println!("VAL {} nil", hk),
                        Err(e) => println!("VAL {} ERR:{}", hk, e.to_string().replace(' ', "_")),
                    }
                }
                println!("DUMPED");
            }
            Some("stats") => {
                let evs = shim::take_log(&dir, false);
                let hints = evs.iter().filter(|e| e.kind == shim::K_OPEN && e.a & libc::O_CREAT as u64 != 0 && e.name.ends_with(".hint") && e.result >= 0).count();
                let unlinks = evs.iter().filter(|e| e.kind == shim::K_UNLINK && e.result == 0).count();
                let d = handle.verif_dump();
                println!("STATS {}", serde_json::json!({"hint_files_created": hints, "unlinks": unlinks, "delays": shim::delays_done(), "readers_available": d.readers_available, "readers_capacity": d.readers_capacity}));
            }
            Some("fail") => {
                // arm one failing call in this process: fail <class mask> <file kind mask> <nth> <errno>
                let v: Vec<i64> = it.map(|x| x.parse().unwrap_or(0)).collect();
                if v.len() == 4 {
                    shim::fail(v[0] as u32, v[1] as u32, v[2], v[3] as i32);
                }
                println!("ARMED");
            }
            Some("fdshort") => {
                // descriptor shortage for that many milliseconds: the limit is lowered to just above
                // the highest descriptor in use and every hole below it is filled, so that the
                // listener's accept() fails with EMFILE until the shortage is over
                let ms: u64 = it.next().and_then(|x| x.parse().ok()).unwrap_or(50);
                let mut old = libc::rlimit { rlim_cur: 0, rlim_max: 0 };
                unsafe { libc::getrlimit(libc::RLIMIT_NOFILE, &mut old) };
                let maxfd = std::fs::read_dir("/proc/self/fd").map(|rd| rd.flatten().filter_map(|e| e.file_name().to_string_lossy().parse::<u64>().ok()).max().unwrap_or(64)).unwrap_or(64);
                let low = libc::rlimit { rlim_cur: maxfd + 1, rlim_max: old.rlim_max };
                unsafe { libc::setrlimit(libc::RLIMIT_NOFILE, &low) };
                let mut fillers = Vec::new();
                while let Ok(f) = std::fs::File::open("/dev/null") {
                    fillers.push(f);
                    if fillers.len() > 100_000 {
                        break;
                    }
                }
                println!("SHORT {}", fillers.len());
                let _ = std::io::stdout().flush();
                std::thread::sleep(std::time::Duration::from_millis(ms));
                drop(fillers);
                unsafe { libc::setrlimit(libc::RLIMIT_NOFILE, &old) };
                println!("RESTORED");
            }
            Some("exit") | None => break,
            _ => println!("?"),
        }
        let _ = std::io::stdout().flush();
    }
    drop(handle);
    drop(kv);
    let _ = srv_thread;
    0
}

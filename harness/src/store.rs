//! Opening the real store with a chosen configuration, and a thin call wrapper.

#![allow(dead_code)]

use std::path::{Path, PathBuf};

use bitcask::storage::{
    bitcask::{Bitcask, Config, Handle, VerifDump},
    KeyValueStorage,
};
use bytes::Bytes;
use serde_json::{json, Value};

use crate::rng::Rng;

#[derive(Clone, Debug, PartialEq)]
pub enum SyncMode {
    None,
    Always,
    IntervalMs(u64),
}

#[derive(Clone, Debug, PartialEq)]
pub enum Policy {
    Never,
    Always,
    Window(u32, u32),
}

/// Everything `bitcask::storage::bitcask::Config` holds, in a form the harness can draw at random,
/// print into a replay file and turn into the real thing.
#[derive(Clone, Debug)]
pub struct Conf {
    pub max_file_size: u64,
    pub cache: usize,
    pub conc: usize,
    pub sync: SyncMode,
    pub policy: Policy,
    pub trig_frag: f64,
    pub trig_dead: u64,
    pub thr_frag: f64,
    pub thr_dead: u64,
    pub thr_small: u64,
    pub interval_ms: u64,
    pub jitter: f64,
}

impl Default for Conf {
    fn default() -> Self {
        Conf {
            max_file_size: 2 * 1024 * 1024 * 1024,
            cache: 256,
            conc: 2,
            sync: SyncMode::None,
            policy: Policy::Never,
            trig_frag: 0.6,
            trig_dead: 512 * 1024 * 1024,
            thr_frag: 0.4,
            thr_dead: 128 * 1024 * 1024,
            thr_small: 10 * 1024 * 1024,
            interval_ms: 3_600_000,
            jitter: 0.0,
        }
    }
}

/// A named way of choosing merge thresholds; the name goes into coverage classes.
pub fn draw_thresholds(r: &mut Rng, c: &mut Conf) -> &'static str {
    match r.weighted(&[30, 8, 14, 10, 10, 10, 9, 9]) {
        0 => {
            // every non-empty file is eligible
            c.thr_frag = 1.0;
            c.thr_dead = u64::MAX;
            c.thr_small = u64::MAX;
            "all"
        }
        1 => {
            c.thr_frag = 1.0;
            c.thr_dead = u64::MAX;
            c.thr_small = 0;
            "none"
        }
        2 => {
            c.thr_frag = 0.0;
            c.thr_dead = u64::MAX;
            c.thr_small = 0;
            "any-dead"
        }
        3 => {
            c.thr_frag = *r.pick(&[0.2, 0.34, 0.5, 0.75]);
            c.thr_dead = u64::MAX;
            c.thr_small = 0;
            "frag"
        }
        4 => {
            c.thr_frag = 1.0;
            c.thr_dead = *r.pick(&[0, 20, 60, 200, 1000, 9000]);
            c.thr_small = 0;
            "dead-bytes"
        }
        5 => {
            c.thr_frag = 1.0;
            c.thr_dead = u64::MAX;
            c.thr_small = *r.pick(&[30, 80, 200, 600, 3000, 10_000, 30_000]);
            "small-file"
        }
        6 => {
            c.thr_frag = *r.pick(&[0.0, 0.5]);
            c.thr_dead = *r.pick(&[60, 1000]);
            c.thr_small = *r.pick(&[0, 100]);
            "mixed"
        }
        _ => {
            // the shipped defaults
            c.thr_frag = 0.4;
            c.thr_dead = 128 * 1024 * 1024;
            c.thr_small = 10 * 1024 * 1024;
            "defaults"
        }
    }
}

impl Conf {
    pub fn to_json(&self, path: &Path) -> Value {
        json!({
            "path": path.to_str().unwrap(),
            "concurrency": self.conc,
            "readers_cache_size": self.cache,
            "max_file_size": self.max_file_size,
            "sync": match self.sync {
                SyncMode::None => json!("none"),
                SyncMode::Always => json!("always"),
                SyncMode::IntervalMs(n) => json!({"interval_ms": n}),
            },
            "merge": {
                "policy": match self.policy {
                    Policy::Never => json!("never"),
                    Policy::Always => json!("always"),
                    Policy::Window(s, e) => json!({"window": {"start": s, "end": e}}),
                },
                "triggers": {"fragmentation": self.trig_frag, "dead_bytes": self.trig_dead},
                "thresholds": {"fragmentation": self.thr_frag, "dead_bytes": self.thr_dead, "small_file": self.thr_small},
                "check_interval_ms": self.interval_ms,
                "check_jitter": self.jitter,
            }
        })
    }

    pub fn from_json(v: &Value) -> Conf {
        let m = &v["merge"];
        Conf {
            max_file_size: v["max_file_size"].as_u64().unwrap(),
            cache: v["readers_cache_size"].as_u64().unwrap() as usize,
            conc: v["concurrency"].as_u64().unwrap() as usize,
            sync: match &v["sync"] {
                Value::String(s) if s == "always" => SyncMode::Always,
                Value::String(_) => SyncMode::None,
                o => SyncMode::IntervalMs(o["interval_ms"].as_u64().unwrap()),
            },
            policy: match &m["policy"] {
                Value::String(s) if s == "always" => Policy::Always,
                Value::String(_) => Policy::Never,
                o => Policy::Window(o["window"]["start"].as_u64().unwrap() as u32, o["window"]["end"].as_u64().unwrap() as u32),
            },
            trig_frag: m["triggers"]["fragmentation"].as_f64().unwrap(),
            trig_dead: m["triggers"]["dead_bytes"].as_u64().unwrap(),
            thr_frag: m["thresholds"]["fragmentation"].as_f64().unwrap(),
            thr_dead: m["thresholds"]["dead_bytes"].as_u64().unwrap(),
            thr_small: m["thresholds"]["small_file"].as_u64().unwrap(),
            interval_ms: m["check_interval_ms"].as_u64().unwrap(),
            jitter: m["check_jitter"].as_f64().unwrap(),
        }
    }

    /// The real configuration object, built the way the server builds it: by deserialising.
    pub fn to_config(&self, path: &Path) -> Config {
        serde_json::from_value(self.to_json(path)).expect("config deserialises")
    }

    pub fn brief(&self) -> String {
        format!(
            "mfs={} cache={} conc={} sync={:?} thr=({},{},{})",
            self.max_file_size,
            self.cache,
            self.conc,
            self.sync,
            self.thr_frag,
            if self.thr_dead == u64::MAX { "max".to_string() } else { self.thr_dead.to_string() },
            if self.thr_small == u64::MAX { "max".to_string() } else { self.thr_small.to_string() }
        )
    }
}

/// An open store: the owning object plus one handle.
pub struct Store {
    pub kv: Option<Bitcask>,
    pub h: Handle,
    pub dir: PathBuf,
}

#[derive(Debug, Clone, PartialEq, Eq)]
pub enum OpErr {
    Closed,
    Other(String),
}

fn map_err(e: bitcask::storage::bitcask::Error) -> OpErr {
    match e {
        bitcask::storage::bitcask::Error::Closed => OpErr::Closed,
        o => OpErr::Other(o.to_string()),
    }
}

impl Store {
    pub fn open(dir: &Path, conf: &Conf) -> Result<Store, String> {
        let kv = conf.to_config(dir).open().map_err(|e| e.to_string())?;
        let h = kv.get_handle();
        Ok(Store { kv: Some(kv), h, dir: dir.to_path_buf() })
    }
    pub fn set(&self, k: &[u8], v: &[u8]) -> Result<(), OpErr> {
        KeyValueStorage::set(&self.h, Bytes::copy_from_slice(k), Bytes::copy_from_slice(v)).map_err(map_err)
    }
    pub fn get(&self, k: &[u8]) -> Result<Option<Vec<u8>>, OpErr> {
        KeyValueStorage::get(&self.h, Bytes::copy_from_slice(k)).map(|o| o.map(|b| b.to_vec())).map_err(map_err)
    }
    pub fn del(&self, k: &[u8]) -> Result<bool, OpErr> {
        KeyValueStorage::del(&self.h, Bytes::copy_from_slice(k)).map_err(map_err)
    }
    pub fn merge(&self) -> Result<(), OpErr> {
        self.h.verif_merge().map_err(map_err)
    }
    pub fn sync(&self) -> Result<(), OpErr> {
        self.h.verif_sync().map_err(map_err)
    }
    pub fn dump(&self) -> VerifDump {
        self.h.verif_dump()
    }
    /// Drop the owning object (this is "close"); the handle stays usable for C17.
    pub fn close(&mut self) {
        self.kv.take();
    }
}

pub fn hget(h: &Handle, k: &[u8]) -> Result<Option<Vec<u8>>, OpErr> {
    KeyValueStorage::get(h, Bytes::copy_from_slice(k)).map(|o| o.map(|b| b.to_vec())).map_err(map_err)
}
pub fn hset(h: &Handle, k: &[u8], v: &[u8]) -> Result<(), OpErr> {
    KeyValueStorage::set(h, Bytes::copy_from_slice(k), Bytes::copy_from_slice(v)).map_err(map_err)
}
pub fn hdel(h: &Handle, k: &[u8]) -> Result<bool, OpErr> {
    KeyValueStorage::del(h, Bytes::copy_from_slice(k)).map_err(map_err)
}
pub fn hmerge(h: &Handle) -> Result<(), OpErr> {
    h.verif_merge().map_err(map_err)
}

/// Wait until no thread of this process is called `bitcask-backgro*` beyond `baseline`, or give up.
pub fn background_threads() -> usize {
    let mut n = 0;
    if let Ok(rd) = std::fs::read_dir("/proc/self/task") {
        for e in rd.flatten() {
            if let Ok(c) = std::fs::read_to_string(e.path().join("comm")) {
                if c.starts_with("bitcask-backgro") {
                    n += 1;
                }
            }
        }
    }
    n
}

pub fn wait_background_threads(at_most: usize, timeout_ms: u64) -> bool {
    let t0 = std::time::Instant::now();
    loop {
        if background_threads() <= at_most {
            return true;
        }
        if t0.elapsed().as_millis() as u64 > timeout_ms {
            return false;
        }
        std::thread::sleep(std::time::Duration::from_micros(200));
    }
}

pub fn fresh_dir(base: &Path, tag: &str) -> PathBuf {
    let p = base.join(tag);
    let _ = std::fs::remove_dir_all(&p);
    std::fs::create_dir_all(&p).expect("create scratch dir");
    p
}

/// (name, size) of every regular file, sorted by name.
pub fn list_dir(dir: &Path) -> Vec<(String, u64)> {
    let mut v = Vec::new();
    if let Ok(rd) = std::fs::read_dir(dir) {
        for e in rd.flatten() {
            if let Ok(md) = e.metadata() {
                if md.is_file() {
                    v.push((e.file_name().to_string_lossy().to_string(), md.len()));
                }
            }
        }
    }
    v.sort();
    v
}

pub fn copy_dir(from: &Path, to: &Path, skip_ext: Option<&str>) {
    let _ = std::fs::remove_dir_all(to);
    std::fs::create_dir_all(to).unwrap();
    for (name, _) in list_dir(from) {
        if let Some(x) = skip_ext {
            if name.ends_with(x) {
                continue;
            }
        }
        std::fs::copy(from.join(&name), to.join(&name)).unwrap();
    }
}

/// "12.bitcask.data" -> Some((12, true)); hint files give (id, false).
pub fn parse_name(name: &str) -> Option<(u64, bool)> {
    let mut it = name.split('.');
    let id = it.next()?.parse::<u64>().ok()?;
    if it.next()? != "bitcask" {
        return None;
    }
    match it.next()? {
        "data" => Some((id, true)),
        "hint" => Some((id, false)),
        _ => None,
    }
}

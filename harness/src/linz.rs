//! Linearizability checker for a register with set / get / delete, per key (a map is linearizable
//! iff every key's sub-history is). Wing-Gong search with memoisation on (set of linearised
//! operations, register value). Written values are unique ids, so a read names the write it saw.

#![allow(dead_code)]

use std::collections::HashSet;

pub const PENDING: u64 = u64::MAX;

#[derive(Clone, Debug, PartialEq, Eq)]
pub enum Kind {
    /// write of the value with this id
    Set(u64),
    /// read that returned this id (None = absent)
    Get(Option<u64>),
    /// delete that reported whether the key was present
    Del(bool),
    /// delete whose answer is unknown (no reply): may have found the key or not
    DelUnknown,
}

#[derive(Clone, Debug)]
pub struct Op {
    pub thread: u32,
    pub kind: Kind,
    pub call: u64,
    /// PENDING if no reply was ever observed: the operation may take effect at any later time, or never
    pub ret: u64,
}

#[derive(Debug)]
pub enum Verdict {
    Ok { nodes: u64 },
    /// no order explains the history; `stuck` lists the operations that could not be placed
    Violation { explanation: String },
    Inconclusive(String),
}

pub fn brief(op: &Op) -> String {
    let k = match &op.kind {
        Kind::Set(v) => format!("set(#{})", v),
        Kind::Get(Some(v)) => format!("get->#{}", v),
        Kind::Get(None) => "get->nothing".into(),
        Kind::Del(b) => format!("del->{}", b),
        Kind::DelUnknown => "del->?".into(),
    };
    format!("t{} {} [{}..{}]", op.thread, k, op.call, if op.ret == PENDING { "pending".to_string() } else { op.ret.to_string() })
}

/// Check one key's history, starting from `init`. At most 128 operations.
pub fn check_key(ops: &[Op], init: Option<u64>, node_cap: u64) -> Verdict {
    let n = ops.len();
    if n == 0 {
        return Verdict::Ok { nodes: 0 };
    }
    if n > 128 {
        return Verdict::Inconclusive(format!("{} operations on one key in one segment (limit 128)", n));
    }
    // quick necessary condition with a good message: a read of a value nobody wrote
    for op in ops {
        if let Kind::Get(Some(v)) = op.kind {
            if Some(v) != init && !ops.iter().any(|o| o.kind == Kind::Set(v)) {
                return Verdict::Violation { explanation: format!("{} returned a value that no set in this segment wrote and that was not the initial value ({:?})", brief(op), init) };
            }
        }
    }
    let completed: u128 = ops.iter().enumerate().filter(|(_, o)| o.ret != PENDING).fold(0u128, |m, (i, _)| m | (1u128 << i));
    let mut memo: HashSet<(u128, Option<u64>)> = HashSet::new();
    let mut stack: Vec<(u128, Option<u64>)> = vec![(0, init)];
    let mut nodes = 0u64;
    let mut best: (u32, u128, Option<u64>) = (0, 0, init);
    while let Some((done, val)) = stack.pop() {
        if done & completed == completed {
            return Verdict::Ok { nodes };
        }
        if !memo.insert((done, val)) {
            continue;
        }
        nodes += 1;
        if nodes > node_cap {
            return Verdict::Inconclusive(format!("search exceeded {} states", node_cap));
        }
        let cnt = (done & completed).count_ones();
        if cnt > best.0 {
            best = (cnt, done, val);
        }
        // an operation may go next iff no other unlinearised operation returned before it was called
        let mut min_ret = u64::MAX;
        for (i, o) in ops.iter().enumerate() {
            if done & (1u128 << i) == 0 && o.ret < min_ret {
                min_ret = o.ret;
            }
        }
        for (i, o) in ops.iter().enumerate() {
            if done & (1u128 << i) != 0 || o.call > min_ret {
                continue;
            }
            let next = match &o.kind {
                Kind::Set(v) => Some(Some(*v)),
                Kind::Get(r) => {
                    if *r == val {
                        Some(val)
                    } else {
                        None
                    }
                }
                Kind::Del(b) => {
                    if *b == val.is_some() {
                        Some(None)
                    } else {
                        None
                    }
                }
                Kind::DelUnknown => Some(None),
            };
            if let Some(nv) = next {
                stack.push((done | (1u128 << i), nv));
            }
        }
    }
    // explain: the furthest the search got
    let (_, done, val) = best;
    let mut stuck: Vec<String> = Vec::new();
    let mut min_ret = u64::MAX;
    for (i, o) in ops.iter().enumerate() {
        if done & (1u128 << i) == 0 && o.ret < min_ret {
            min_ret = o.ret;
        }
    }
    for (i, o) in ops.iter().enumerate() {
        if done & (1u128 << i) == 0 && o.call <= min_ret {
            stuck.push(brief(o));
        }
    }
    let placed: Vec<String> = ops.iter().enumerate().filter(|(i, _)| done & (1u128 << i) != 0).map(|(_, o)| brief(o)).collect();
    Verdict::Violation {
        explanation: format!(
            "no order of the operations respects real time: after placing {} of {} operations the register holds {:?} and none of the next candidates fits: [{}] (placed so far: [{}])",
            placed.len(),
            n,
            val,
            stuck.join("; "),
            placed.iter().rev().take(8).cloned().collect::<Vec<_>>().join("; ")
        ),
    }
}

/// Hash of the order of call/return events: two histories with the same hash overlapped the same way.
pub fn overlap_pattern(ops: &[Op]) -> u64 {
    let mut evs: Vec<(u64, u8, usize)> = Vec::new();
    for (i, o) in ops.iter().enumerate() {
        evs.push((o.call, 0, i));
        if o.ret != PENDING {
            evs.push((o.ret, 1, i));
        }
    }
    evs.sort();
    let mut h: u64 = 0xcbf29ce484222325;
    // renumber operations by first appearance so that the pattern does not depend on ids
    let mut names: Vec<Option<u8>> = vec![None; ops.len()];
    let mut next = 0u8;
    for (_, kind, i) in evs {
        let nm = *names[i].get_or_insert_with(|| {
            next = next.wrapping_add(1);
            next
        });
        let k = match ops[i].kind {
            Kind::Set(_) => 1u8,
            Kind::Get(Some(_)) => 2,
            Kind::Get(None) => 3,
            Kind::Del(true) => 4,
            Kind::Del(false) => 5,
            Kind::DelUnknown => 6,
        };
        for b in [kind, nm, k] {
            h ^= b as u64;
            h = h.wrapping_mul(0x100000001b3);
        }
    }
    h
}

/// Number of pairs (get, set) of the same history whose intervals overlap.
pub fn overlapping_get_set_pairs(ops: &[Op]) -> u64 {
    let mut n = 0;
    for a in ops {
        if !matches!(a.kind, Kind::Get(_)) {
            continue;
        }
        for b in ops {
            if matches!(b.kind, Kind::Set(_) | Kind::Del(_)) && a.call < b.ret && b.call < a.ret {
                n += 1;
            }
        }
    }
    n
}

#[cfg(test)]
mod tests {
    use super::*;
    fn op(t: u32, k: Kind, c: u64, r: u64) -> Op {
        Op { thread: t, kind: k, call: c, ret: r }
    }
    #[test]
    fn sequential_ok() {
        let h = vec![op(0, Kind::Set(1), 0, 1), op(0, Kind::Get(Some(1)), 2, 3), op(0, Kind::Del(true), 4, 5), op(0, Kind::Get(None), 6, 7)];
        assert!(matches!(check_key(&h, None, 1000), Verdict::Ok { .. }));
    }
    #[test]
    fn stale_read_rejected() {
        let h = vec![op(0, Kind::Set(1), 0, 1), op(0, Kind::Set(2), 2, 3), op(1, Kind::Get(Some(1)), 4, 5)];
        assert!(matches!(check_key(&h, None, 1000), Verdict::Violation { .. }));
    }
    #[test]
    fn overlapping_read_either_way() {
        let h = vec![op(0, Kind::Set(1), 0, 1), op(0, Kind::Set(2), 2, 6), op(1, Kind::Get(Some(1)), 3, 4), op(2, Kind::Get(Some(2)), 3, 5)];
        assert!(matches!(check_key(&h, None, 1000), Verdict::Ok { .. }));
    }
    #[test]
    fn pending_write_may_apply_later() {
        let h = vec![op(0, Kind::Set(1), 0, PENDING), op(1, Kind::Get(None), 1, 2), op(1, Kind::Get(Some(1)), 3, 4)];
        assert!(matches!(check_key(&h, None, 1000), Verdict::Ok { .. }));
    }
    #[test]
    fn read_of_future_write_rejected() {
        let h = vec![op(1, Kind::Get(Some(1)), 0, 1), op(0, Kind::Set(1), 2, 3)];
        assert!(matches!(check_key(&h, None, 1000), Verdict::Violation { .. }));
    }
}

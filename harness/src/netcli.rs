//! Client side of the network checks: spawning a `serve` child, raw sockets, reply reading.

#![allow(dead_code)]

use std::collections::HashMap;
use std::io::{BufRead, BufReader, Read, Write};
use std::net::{TcpListener, TcpStream};
use std::path::{Path, PathBuf};
use std::process::{Child, ChildStdin, Command, Stdio};
use std::sync::mpsc::{channel, Receiver};
use std::time::{Duration, Instant};

use serde_json::Value;

use crate::resp::{ref_parse, RFrame, RefOut};
use crate::store::Conf;

pub struct Server {
    pub child: Child,
    stdin: ChildStdin,
    lines: Receiver<String>,
    pub port: u16,
    pub dir: PathBuf,
}

/// A port for a server this process is about to start. Ports come from a range below the kernel's
/// ephemeral range, partitioned by process id, so that concurrently running workers (which all
/// start servers at the same time) do not hand each other's ports out: with bind(0) the kernel
/// readily gives the port one worker just probed to the next one.
pub fn free_port() -> u16 {
    use std::sync::atomic::{AtomicU32, Ordering};
    static NEXT: AtomicU32 = AtomicU32::new(0);
    let pid = std::process::id();
    for _ in 0..200 {
        let n = NEXT.fetch_add(1, Ordering::Relaxed);
        let port = 10_000 + ((pid % 500) * 40 + (n % 40)) as u16;
        if TcpListener::bind(("127.0.0.1", port)).is_ok() {
            return port;
        }
    }
    let l = TcpListener::bind("127.0.0.1:0").expect("bind :0");
    l.local_addr().unwrap().port()
}

fn hexs(b: &[u8]) -> String {
    b.iter().map(|x| format!("{:02x}", x)).collect()
}
fn unhex(s: &str) -> Vec<u8> {
    (0..s.len() / 2).map(|i| u8::from_str_radix(&s[2 * i..2 * i + 2], 16).unwrap_or(0)).collect()
}

impl Server {
    pub fn spawn(dir: &Path, conf: &Conf, max_conn: usize, threads: usize, extra: &[String]) -> Result<Server, String> {
        let exe = std::env::current_exe().map_err(|e| e.to_string())?;
        for _attempt in 0..20 {
            let port = free_port();
            let mut child = Command::new(&exe)
                .arg("serve")
                .arg(dir)
                .arg(conf.to_json(dir).to_string())
                .arg(port.to_string())
                .arg(max_conn.to_string())
                .arg(threads.to_string())
                .args(extra)
                .stdin(Stdio::piped())
                .stdout(Stdio::piped())
                .stderr(Stdio::null())
                .spawn()
                .map_err(|e| e.to_string())?;
            let stdin = child.stdin.take().unwrap();
            let stdout = child.stdout.take().unwrap();
            let (tx, rx) = channel::<String>();
            std::thread::spawn(move || {
                let r = BufReader::new(stdout);
                for l in r.lines().flatten() {
                    if tx.send(l).is_err() {
                        break;
                    }
                }
            });
            match rx.recv_timeout(Duration::from_secs(30)) {
                Ok(l) if l.starts_with("READY") => return Ok(Server { child, stdin, lines: rx, port, dir: dir.to_path_buf() }),
                Ok(l) if l.starts_with("BIND-FAILED") => {
                    let _ = child.kill();
                    let _ = child.wait();
                    continue;
                }
                Ok(l) => {
                    let _ = child.kill();
                    let _ = child.wait();
                    return Err(format!("serve child said: {}", l));
                }
                Err(_) => {
                    let _ = child.kill();
                    let _ = child.wait();
                    return Err("serve child did not become ready in 30 s".into());
                }
            }
        }
        Err("no free port after 20 attempts".into())
    }

    fn send(&mut self, line: &str) -> bool {
        writeln!(self.stdin, "{}", line).is_ok() && self.stdin.flush().is_ok()
    }

    fn line(&mut self, timeout: Duration) -> Option<String> {
        self.lines.recv_timeout(timeout).ok()
    }

    /// Fire the shutdown future; microseconds until Server::run returned.
    pub fn shutdown(&mut self, timeout: Duration) -> Result<u64, String> {
        if !self.send("shutdown") {
            return Err("server process is gone".into());
        }
        match self.line(timeout) {
            Some(l) if l.starts_with("RETURNED") => Ok(l.split_whitespace().nth(1).and_then(|x| x.parse().ok()).unwrap_or(0)),
            Some(l) => Err(l),
            None => Err(format!("no answer within {:?}", timeout)),
        }
    }

    pub fn trigger_shutdown_async(&mut self) -> bool {
        self.send("shutdown")
    }
    pub fn wait_returned(&mut self, timeout: Duration) -> Result<u64, String> {
        match self.line(timeout) {
            Some(l) if l.starts_with("RETURNED") => Ok(l.split_whitespace().nth(1).and_then(|x| x.parse().ok()).unwrap_or(0)),
            Some(l) => Err(l),
            None => Err(format!("no answer within {:?}", timeout)),
        }
    }

    pub fn dump(&mut self, keys: &[Vec<u8>]) -> Result<HashMap<Vec<u8>, Result<Option<Vec<u8>>, String>>, String> {
        let mut m = HashMap::new();
        for chunk in keys.chunks(64) {
            let line = format!("dump {}", chunk.iter().map(|k| if k.is_empty() { "-".to_string() } else { hexs(k) }).collect::<Vec<_>>().join(" "));
            // the empty key cannot be written as hex: handled by the caller (not dumped)
            if !self.send(&line) {
                return Err("server process is gone".into());
            }
            loop {
                match self.line(Duration::from_secs(30)) {
                    Some(l) if l == "DUMPED" => break,
                    Some(l) if l.starts_with("VAL ") => {
                        let mut it = l.split_whitespace().skip(1);
                        let k = unhex(it.next().unwrap_or(""));
                        let v = it.next().unwrap_or("nil");
                        let r = if v == "nil" {
                            Ok(None)
                        } else if let Some(e) = v.strip_prefix("ERR:") {
                            Err(e.to_string())
                        } else {
                            Ok(Some(unhex(v.trim_start_matches('='))))
                        };
                        m.insert(k, r);
                    }
                    Some(_) => {}
                    None => return Err("dump timed out".into()),
                }
            }
        }
        Ok(m)
    }

    /// Make the nth file-system call of the given class on the given kind of file fail once in the
    /// server process.
    pub fn arm_fault(&mut self, class: u32, kind: u32, nth: i64, errno: i32) -> bool {
        self.send(&format!("fail {} {} {} {}", class, kind, nth, errno)) && matches!(self.line(Duration::from_secs(30)), Some(l) if l == "ARMED")
    }

    /// Start a descriptor shortage of `ms` milliseconds in the server process; returns once no
    /// descriptor can be allocated there any more.
    pub fn fd_shortage_begin(&mut self, ms: u64) -> bool {
        self.send(&format!("fdshort {}", ms)) && matches!(self.line(Duration::from_secs(30)), Some(l) if l.starts_with("SHORT"))
    }
    pub fn fd_shortage_end(&mut self) -> bool {
        matches!(self.line(Duration::from_secs(30)), Some(l) if l == "RESTORED")
    }

    pub fn stats(&mut self) -> Value {
        if !self.send("stats") {
            return Value::Null;
        }
        match self.line(Duration::from_secs(30)) {
            Some(l) if l.starts_with("STATS ") => serde_json::from_str(&l[6..]).unwrap_or(Value::Null),
            _ => Value::Null,
        }
    }

    /// None while running; Some(description) once the process has ended.
    pub fn ended(&mut self) -> Option<String> {
        match self.child.try_wait() {
            Ok(Some(st)) => Some(format!("{:?}", st)),
            _ => None,
        }
    }

    pub fn stop(mut self) {
        let _ = self.send("exit");
        let t0 = Instant::now();
        while t0.elapsed() < Duration::from_secs(5) {
            if let Ok(Some(_)) = self.child.try_wait() {
                return;
            }
            std::thread::sleep(Duration::from_millis(5));
        }
        let _ = self.child.kill();
        let _ = self.child.wait();
    }
}

pub fn connect(port: u16) -> std::io::Result<TcpStream> {
    let s = TcpStream::connect_timeout(&format!("127.0.0.1:{}", port).parse().unwrap(), Duration::from_secs(10))?;
    s.set_nodelay(true)?;
    s.set_read_timeout(Some(Duration::from_millis(50)))?;
    s.set_write_timeout(Some(Duration::from_secs(20)))?;
    Ok(s)
}

#[derive(Debug)]
pub enum ReadErr {
    /// the peer closed the stream (bytes read so far are kept)
    Eof,
    Reset(String),
    Timeout,
}

/// Accumulating reader over a socket with short poll timeouts.
pub struct Rx {
    pub s: TcpStream,
    pub buf: Vec<u8>,
    pub eof: bool,
    pub err: Option<String>,
}

impl Rx {
    pub fn new(s: TcpStream) -> Rx {
        Rx { s, buf: Vec::new(), eof: false, err: None }
    }
    /// One poll: read whatever is there (up to the socket's read timeout).
    pub fn poll(&mut self) {
        if self.eof || self.err.is_some() {
            return;
        }
        let mut tmp = [0u8; 65536];
        match self.s.read(&mut tmp) {
            Ok(0) => self.eof = true,
            Ok(n) => self.buf.extend_from_slice(&tmp[..n]),
            Err(e) if e.kind() == std::io::ErrorKind::WouldBlock || e.kind() == std::io::ErrorKind::TimedOut || e.kind() == std::io::ErrorKind::Interrupted => {}
            Err(e) => self.err = Some(e.to_string()),
        }
    }
    /// Read until at least `n` bytes are buffered.
    pub fn need(&mut self, n: usize, deadline: Instant) -> Result<(), ReadErr> {
        while self.buf.len() < n {
            if self.eof {
                return Err(ReadErr::Eof);
            }
            if let Some(e) = &self.err {
                return Err(ReadErr::Reset(e.clone()));
            }
            if Instant::now() > deadline {
                return Err(ReadErr::Timeout);
            }
            self.poll();
        }
        Ok(())
    }
    /// Next complete reply frame (reference decoder), consumed from the buffer.
    pub fn reply(&mut self, deadline: Instant) -> Result<RFrame, ReadErr> {
        loop {
            match ref_parse(&self.buf) {
                RefOut::Frame(f, n) => {
                    self.buf.drain(..n);
                    return Ok(f);
                }
                RefOut::Reject => return Err(ReadErr::Reset(format!("reply bytes are not RESP: {}", crate::orch::show(&self.buf)))),
                RefOut::Incomplete => {}
            }
            if self.eof {
                return Err(ReadErr::Eof);
            }
            if let Some(e) = &self.err {
                return Err(ReadErr::Reset(e.clone()));
            }
            if Instant::now() > deadline {
                return Err(ReadErr::Timeout);
            }
            self.poll();
        }
    }
    /// Read until end of stream / reset / deadline; returns how it ended.
    pub fn drain(&mut self, deadline: Instant) -> ReadErr {
        loop {
            if self.eof {
                return ReadErr::Eof;
            }
            if let Some(e) = &self.err {
                return ReadErr::Reset(e.clone());
            }
            if Instant::now() > deadline {
                return ReadErr::Timeout;
            }
            self.poll();
        }
    }
}

pub fn write_segments(s: &mut TcpStream, bytes: &[u8], cuts: &[usize], pause_us: u64) -> std::io::Result<()> {
    let mut last = 0;
    for &c in cuts.iter().chain(std::iter::once(&bytes.len())) {
        let c = c.min(bytes.len());
        if c > last {
            s.write_all(&bytes[last..c])?;
            last = c;
            if pause_us > 0 {
                std::thread::sleep(Duration::from_micros(pause_us));
            }
        }
    }
    Ok(())
}

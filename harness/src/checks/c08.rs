//! C08 - RESP encoding and decoding round-trip, independent of stream chunking.

use std::collections::VecDeque;
use std::io::Cursor;
use std::pin::Pin;
use std::sync::{Arc, Mutex};
use std::task::{Context, Poll};
use std::time::Instant;

use bitcask::net::connection::Connection;
use bitcask::net::frame::{Error as FErr, Frame};
use serde_json::json;
use tokio::io::{AsyncRead, AsyncWrite, ReadBuf};

use super::{ncpu, secs, standard_run, Check};
use crate::orch::{even_plans, show, CheckSpec, Ctx, Out, Tier};
use crate::resp::{brief, encode, from_impl, to_impl, RFrame};
use crate::rng::Rng;

pub fn check() -> Check {
    Check {
        spec: CheckSpec {
            id: "C08",
            level: "exploration",
            rule: "one case = a generated sequence of 1-5 frames the connection can write (simple strings/errors without CR/LF, integers incl. i64::MIN/MAX, bulk strings of 0..70 KB of arbitrary bytes incl. trailing CR and embedded CRLF, null, flat arrays of those). Oracle: (1) Connection::write_frame into an in-memory sink (which accepts everything, or at most 1 / 7 / 4096 / 10 000 bytes per write call) produces exactly the reference encoding; (2) Connection::read_frame over an in-memory stream that hands out exactly the chosen segments returns the same frames and then a clean None, for the segmentations: all at once, one byte at a time, EVERY two-segment split (exhaustive for encodings up to 300 bytes), and seeded random cuts (every sixth of these also with one read failing with ErrorKind::Interrupted at a drawn position, after which read_frame is called again and must go on as if nothing had happened); (3) Frame::check on every strict prefix of each encoding is Incomplete; (4) a stream that ends inside a frame (every strict non-empty prefix of the last frame for short encodings) makes read_frame return an error after the complete frames, never None and never a shorter frame. One evaluation = one (sequence, segmentation or prefix) run. Non-trivial/distinct = distinct (encoding hash, segmentation) pairs with at least one cut inside a frame.",
            assumptions: vec!["nested arrays are outside 'frames the connection can write' (write_frame does not implement them)", "the in-memory stream never returns Pending; scheduling is not the subject here"],
            death_is_violation: true,
        },
        timing_dependent: false,
        run,
        worker,
    }
}

fn run(c: &Check, tier: Tier, seed: u64, t0: Instant) -> i32 {
    let n = ncpu() as u64;
    standard_run(c, tier, seed, t0, even_plans("", n, secs(tier.pick(600, 7200))), n as usize, 100)
}

/// An in-memory duplex: reads hand out exactly the queued segments (then end-of-stream), writes are
/// collected.
pub struct SegStream {
    segs: VecDeque<Vec<u8>>,
    pub written: Arc<Mutex<Vec<u8>>>,
    pub reads: Arc<Mutex<u64>>,
    /// most bytes one write call accepts (0 = everything): a sink may take only a part, the way a
    /// socket with a nearly full send buffer does
    pub write_limit: usize,
    /// the read with this number (1-based) fails once with ErrorKind::Interrupted and delivers
    /// nothing; the caller is expected to call read_frame again
    pub interrupt_read: Option<u64>,
}

impl SegStream {
    pub fn new(segs: Vec<Vec<u8>>) -> Self {
        SegStream { segs: segs.into_iter().filter(|s| !s.is_empty()).collect(), written: Arc::new(Mutex::new(Vec::new())), reads: Arc::new(Mutex::new(0)), write_limit: 0, interrupt_read: None }
    }
}

impl AsyncRead for SegStream {
    fn poll_read(mut self: Pin<&mut Self>, _cx: &mut Context<'_>, buf: &mut ReadBuf<'_>) -> Poll<std::io::Result<()>> {
        *self.reads.lock().unwrap() += 1;
        if self.interrupt_read == Some(*self.reads.lock().unwrap()) {
            self.interrupt_read = None;
            return Poll::Ready(Err(std::io::Error::new(std::io::ErrorKind::Interrupted, "interrupted-by-harness")));
        }
        if let Some(mut s) = self.segs.pop_front() {
            let n = s.len().min(buf.remaining());
            buf.put_slice(&s[..n]);
            if n < s.len() {
                let rest = s.split_off(n);
                self.segs.push_front(rest);
            }
        }
        Poll::Ready(Ok(()))
    }
}

impl AsyncWrite for SegStream {
    fn poll_write(self: Pin<&mut Self>, _cx: &mut Context<'_>, buf: &[u8]) -> Poll<std::io::Result<usize>> {
        let n = if self.write_limit == 0 { buf.len() } else { buf.len().min(self.write_limit) };
        self.written.lock().unwrap().extend_from_slice(&buf[..n]);
        Poll::Ready(Ok(n))
    }
    fn poll_flush(self: Pin<&mut Self>, _cx: &mut Context<'_>) -> Poll<std::io::Result<()>> {
        Poll::Ready(Ok(()))
    }
    fn poll_shutdown(self: Pin<&mut Self>, _cx: &mut Context<'_>) -> Poll<std::io::Result<()>> {
        Poll::Ready(Ok(()))
    }
}

fn gen_text(r: &mut Rng) -> Vec<u8> {
    let n = r.range(0, 24) as usize;
    let mut s = String::new();
    for _ in 0..n {
        match r.weighted(&[80, 10, 10]) {
            0 => s.push(r.range(0x20, 0x7e) as u8 as char),
            1 => s.push(*r.pick(&['\t', '\0', '\u{7f}'])),
            _ => s.push(*r.pick(&['\u{e9}', '\u{4e16}', '\u{1f600}'])),
        }
    }
    s.into_bytes()
}

fn gen_scalar(r: &mut Rng, big_ok: bool) -> RFrame {
    match r.weighted(&[15, 8, 27, 40, 10]) {
        0 => RFrame::Simple(gen_text(r)),
        1 => RFrame::Error(gen_text(r)),
        2 => RFrame::Int(match r.weighted(&[30, 30, 40]) {
            0 => *r.pick(&[0i64, 1, -1, i64::MAX, i64::MIN, i64::MIN + 1, 10, -10, 999_999_999_999_999_999, 1_000_000_000_000_000_000]),
            1 => r.range(0, 2000) as i64 - 1000,
            _ => r.next_u64() as i64,
        }),
        3 => {
            let n = match r.weighted(&[10, 50, 28, if big_ok { 9 } else { 0 }, if big_ok { 3 } else { 0 }]) {
                0 => 0,
                1 => r.range(1, 20) as usize,
                2 => r.range(21, 400) as usize,
                3 => r.range(4000, 9000) as usize,
                _ => r.range(20_000, 70_000) as usize,
            };
            let mut b = r.bytes(n);
            if n >= 2 {
                match r.below(5) {
                    0 => b[n - 1] = b'\r',
                    1 => {
                        b[n - 2] = b'\r';
                        b[n - 1] = b'\n';
                    }
                    2 => {
                        let p = r.usize_below(n - 1);
                        b[p] = b'\r';
                        b[p + 1] = b'\n';
                    }
                    _ => {}
                }
            }
            RFrame::Bulk(b)
        }
        _ => RFrame::Null,
    }
}

fn gen_writable(r: &mut Rng, big_ok: bool) -> RFrame {
    if r.chance(1, 4) {
        let n = r.range(0, 5);
        RFrame::Array((0..n).map(|_| gen_scalar(r, big_ok && n <= 2)).collect())
    } else {
        gen_scalar(r, big_ok)
    }
}

fn segment(enc: &[u8], cuts: &[usize]) -> Vec<Vec<u8>> {
    let mut v = Vec::new();
    let mut last = 0;
    for &c in cuts {
        if c > last && c < enc.len() {
            v.push(enc[last..c].to_vec());
            last = c;
        }
    }
    v.push(enc[last..].to_vec());
    v
}

struct Verdict {
    sig: &'static str,
    desc: String,
}

enum ReadEnd {
    CleanNone,
    Error(String),
}

/// Read frames until None or error.
fn read_all(rt: &tokio::runtime::Runtime, segs: Vec<Vec<u8>>) -> Result<(Vec<RFrame>, ReadEnd), String> {
    read_all_interrupted(rt, segs, None)
}

/// As read_all; the read numbered `interrupt` fails once with ErrorKind::Interrupted, upon which
/// read_frame is simply called again (what was received before the failed read must not be lost).
fn read_all_interrupted(rt: &tokio::runtime::Runtime, segs: Vec<Vec<u8>>, interrupt: Option<u64>) -> Result<(Vec<RFrame>, ReadEnd), String> {
    let res = std::panic::catch_unwind(std::panic::AssertUnwindSafe(|| {
        rt.block_on(async {
            let mut st = SegStream::new(segs);
            st.interrupt_read = interrupt;
            let mut conn = Connection::new(st);
            let mut got = Vec::new();
            let mut retried = false;
            loop {
                match conn.read_frame().await {
                    Ok(Some(f)) => got.push(from_impl(&f)),
                    Ok(None) => return (got, ReadEnd::CleanNone),
                    Err(e) if !retried && interrupt.is_some() && e.to_string().contains("interrupted-by-harness") => {
                        retried = true;
                        continue;
                    }
                    Err(e) => return (got, ReadEnd::Error(e.to_string())),
                }
                if got.len() > 64 {
                    return (got, ReadEnd::Error("more than 64 frames".into()));
                }
            }
        })
    }));
    res.map_err(|_| crate::last_panic())
}

/// Reduced exploration (used under Miri, where everything is ~1000x slower).
pub static LIGHT: std::sync::atomic::AtomicBool = std::sync::atomic::AtomicBool::new(false);

fn case(ctx: &Ctx, rt: &tokio::runtime::Runtime, case: u64, out: &mut Out) -> Option<Verdict> {
    let light = LIGHT.load(std::sync::atomic::Ordering::Relaxed);
    let mut r = Rng::derive(ctx.seed, 0xC08_0000_0000 ^ case);
    let nframes = if light { r.range(1, 2) as usize } else { r.range(1, 5) as usize };
    let big_ok = !light && r.chance(1, 6);
    let mut frames: Vec<RFrame> = (0..nframes).map(|_| gen_writable(&mut r, big_ok)).collect();
    if light {
        for _ in 0..20 {
            if frames.iter().map(|f| encode(f).len()).sum::<usize>() <= 90 {
                break;
            }
            frames = (0..nframes).map(|_| gen_writable(&mut r, false)).collect();
        }
        if frames.iter().map(|f| encode(f).len()).sum::<usize>() > 90 {
            frames = vec![RFrame::Array(vec![RFrame::Bulk(b"GET".to_vec()), RFrame::Int(i64::MIN), RFrame::Null])];
        }
    }
    let encs: Vec<Vec<u8>> = frames.iter().map(encode).collect();
    let all: Vec<u8> = encs.concat();
    let eh = crate::orch::fnv(&all);

    // (1) the writer
    for (wi, (f, enc)) in frames.iter().zip(&encs).enumerate() {
        let fi = to_impl(f).expect("generated frames are representable");
        // the sink takes everything at once, or at most 1 / 7 / 4096 / 10 000 bytes per write call
        let write_limit = [0usize, 1, 7, 4096, 10_000][((eh as usize) ^ wi) % 5];
        if write_limit > 0 && enc.len() > write_limit {
            out.count("frames_written_into_a_sink_that_takes_only_a_part_per_call", 1);
        }
        let res = std::panic::catch_unwind(std::panic::AssertUnwindSafe(|| {
            rt.block_on(async {
                let mut s = SegStream::new(vec![]);
                s.write_limit = write_limit;
                let w = s.written.clone();
                let mut conn = Connection::new(s);
                let r = conn.write_frame(&fi).await;
                let bytes = w.lock().unwrap().clone();
                (r.map_err(|e| e.to_string()), bytes)
            })
        }));
        out.evaluations += 1;
        out.count("frames_written", 1);
        match res {
            Err(_) => return Some(Verdict { sig: "write-panic", desc: format!("write_frame({}) panicked: {}", brief(f), crate::last_panic()) }),
            Ok((Err(e), _)) => return Some(Verdict { sig: "write-error", desc: format!("write_frame({}) failed: {}", brief(f), e) }),
            Ok((Ok(()), bytes)) => {
                if &bytes != enc {
                    return Some(Verdict { sig: "encoding-differs", desc: format!("write_frame({}) produced {} but the encoding is {} (nothing may stay in the write buffer after write_frame returns)", brief(f), show(&bytes), show(enc)) });
                }
            }
        }
    }

    // (3) strict prefixes are incomplete
    for enc in &encs {
        let lim = if enc.len() <= 600 { enc.len() } else { 0 };
        let mut idxs: Vec<usize> = (0..lim).collect();
        if enc.len() > 600 {
            for _ in 0..120 {
                idxs.push(r.usize_below(enc.len()));
            }
            idxs.extend([enc.len() - 1, enc.len() - 2, enc.len() - 3, 1, 2, 3, 4, 5, 6, 7]);
        }
        for i in idxs {
            let p = &enc[..i];
            let res = std::panic::catch_unwind(|| {
                let mut c = Cursor::new(p);
                Frame::check(&mut c)
            });
            out.evaluations += 1;
            out.count("prefixes_checked", 1);
            match res {
                Err(_) => return Some(Verdict { sig: "check-panic-on-prefix", desc: format!("Frame::check panicked on the {}-byte prefix {} of a valid encoding: {}", i, show(p), crate::last_panic()) }),
                Ok(Err(FErr::Incomplete)) => {}
                Ok(Ok(())) => return Some(Verdict { sig: "prefix-accepted-as-frame", desc: format!("Frame::check accepted the strict {}-byte prefix {} of the {}-byte encoding {}", i, show(p), enc.len(), show(enc)) }),
                Ok(Err(e)) => return Some(Verdict { sig: "prefix-reported-as-error", desc: format!("Frame::check reported '{}' instead of Incomplete on the strict {}-byte prefix {} of {}", e, i, show(p), show(enc)) }),
            }
        }
    }

    // (2) reading back under segmentations
    let mut segmentations: Vec<(String, Vec<Vec<u8>>)> = vec![("all-at-once".into(), vec![all.clone()])];
    if all.len() <= 3000 {
        segmentations.push(("byte-by-byte".into(), all.iter().map(|b| vec![*b]).collect()));
    }
    if all.len() <= 300 {
        for c in 1..all.len() {
            segmentations.push((format!("split@{}", c), segment(&all, &[c])));
        }
    } else {
        for _ in 0..30 {
            let c = r.usize_below(all.len() - 1) + 1;
            segmentations.push((format!("split@{}", c), segment(&all, &[c])));
        }
        // splits around every frame boundary
        let mut o = 0;
        for e in &encs {
            o += e.len();
            for d in [-2i64, -1, 0, 1, 2] {
                let c = o as i64 + d;
                if c > 0 && (c as usize) < all.len() {
                    segmentations.push((format!("split@{}", c), segment(&all, &[c as usize])));
                }
            }
        }
    }
    for k in 0..6 {
        let ncuts = r.range(1, 12) as usize;
        let mut cuts: Vec<usize> = (0..ncuts).map(|_| r.usize_below(all.len().max(1))).collect();
        cuts.sort();
        cuts.dedup();
        segmentations.push((format!("random-{}:{:?}", k, &cuts[..cuts.len().min(6)]), segment(&all, &cuts)));
    }
    if light {
        let keep: Vec<usize> = (0..segmentations.len()).filter(|i| *i < 2 || i % 7 == 3 || *i + 3 > segmentations.len()).collect();
        segmentations = keep.into_iter().map(|i| segmentations[i].clone()).collect();
    }
    // every sixth segmentation is also read with one read failing transiently (Interrupted) at a
    // drawn position, after which read_frame is called again
    let n_seg_total = segmentations.len();
    for (si, (name, segs)) in segmentations.into_iter().enumerate() {
        let nseg = segs.len();
        out.evaluations += 1;
        out.count("sequences_read_back", 1);
        let interrupt = if !light && (si % 6 == 5 || si + 1 == n_seg_total) { Some(r.range(1, nseg as u64 + 1)) } else { None };
        if interrupt.is_some() {
            out.count("sequences_read_back_with_one_interrupted_read", 1);
        }
        let name = if let Some(i) = interrupt { format!("{} with read #{} interrupted", name, i) } else { name };
        match read_all_interrupted(rt, segs, interrupt) {
            Err(p) => return Some(Verdict { sig: "read-panic", desc: format!("read_frame panicked under segmentation {}: {}", name, p) }),
            Ok((got, end)) => {
                if got != frames {
                    let first_bad = got.iter().zip(&frames).position(|(a, b)| a != b).unwrap_or(got.len().min(frames.len()));
                    return Some(Verdict {
                        sig: "decoded-frames-differ",
                        desc: format!("segmentation {} of {} ({} frames): read back {} frames; first difference at #{}: got {} expected {}", name, show(&all), frames.len(), got.len(), first_bad, got.get(first_bad).map(brief).unwrap_or("<none>".into()), frames.get(first_bad).map(brief).unwrap_or("<none>".into())),
                    });
                }
                match end {
                    ReadEnd::CleanNone => {}
                    ReadEnd::Error(e) => return Some(Verdict { sig: "no-clean-end", desc: format!("segmentation {}: after all {} frames read_frame returned error '{}' instead of None", name, frames.len(), e) }),
                }
            }
        }
        if nseg > 1 {
            out.class(format!("{:016x}-{}", eh, name));
        }
        out.class_counter(&format!("seg:{}", name.split(|c| c == '@' || c == '-' || c == ':').next().unwrap_or("")));
    }

    // (4) end of stream inside the last frame
    let head: Vec<u8> = encs[..encs.len() - 1].concat();
    let last = &encs[encs.len() - 1];
    let mut cut_points: Vec<usize> = if last.len() <= 200 { (1..last.len()).collect() } else { (0..40).map(|_| r.usize_below(last.len() - 1) + 1).collect() };
    if last.len() > 200 {
        cut_points.extend([1, 2, 3, last.len() - 1, last.len() - 2]);
    }
    if light {
        cut_points = cut_points.into_iter().step_by(5).collect();
    }
    for c in cut_points {
        let mut stream = head.clone();
        stream.extend_from_slice(&last[..c]);
        let segs = if r.chance(1, 2) { vec![stream.clone()] } else { segment(&stream, &[r.usize_below(stream.len().max(1))]) };
        out.evaluations += 1;
        out.count("truncated_streams", 1);
        match read_all(rt, segs) {
            Err(p) => return Some(Verdict { sig: "read-panic", desc: format!("read_frame panicked on a stream cut {} bytes into its last frame: {}", c, p) }),
            Ok((got, end)) => {
                if got != frames[..frames.len() - 1] {
                    return Some(Verdict { sig: "truncated-stream-yields-wrong-frames", desc: format!("stream {} (ends {} bytes into frame {}): read back {:?}", show(&stream), c, brief(&frames[frames.len() - 1]), got.iter().map(brief).collect::<Vec<_>>()) });
                }
                if let ReadEnd::CleanNone = end {
                    return Some(Verdict { sig: "truncated-stream-reported-as-clean-end", desc: format!("stream {} ends {} bytes into frame {} but read_frame reported a clean end of stream", show(&stream), c, brief(&frames[frames.len() - 1])) });
                }
            }
        }
    }
    out.max("largest_bulk", frames.iter().map(|f| match f { RFrame::Bulk(b) => b.len() as u64, _ => 0 }).max().unwrap_or(0));
    if out.samples.len() < 3 && (case % 911 == 7 || out.samples.is_empty()) {
        out.sample(json!({"case": case, "frames": frames.iter().map(brief).collect::<Vec<_>>(), "stream_bytes": all.len(), "segmentations": "all-at-once, byte-by-byte, every/sampled 2-way split, 6 random cut sets, every/sampled truncation of the last frame"}));
    }
    None
}

/// In-process reduced run for `cargo miri run`: returns (evaluations, violations).
pub fn miri_run(seed: u64, cases: u64) -> (u64, Vec<String>) {
    LIGHT.store(true, std::sync::atomic::Ordering::Relaxed);
    let rt = tokio::runtime::Builder::new_current_thread().build().expect("runtime");
    let ctx = Ctx { id: "C08".into(), tier: Tier::Quick, seed, shard: 0, nshards: 1, out_path: std::path::PathBuf::from("/nonexistent/out"), scratch: std::path::PathBuf::from("/nonexistent"), only_case: None, mode: "miri".into(), detail: serde_json::Value::Null };
    let mut out = Out::default();
    let mut v = Vec::new();
    for c in 0..cases {
        if let Some(x) = case(&ctx, &rt, c, &mut out) {
            v.push(format!("[{}] case {}: {}", x.sig, c, x.desc));
        }
    }
    (out.evaluations, v)
}

fn worker(ctx: &Ctx, out: &mut Out) {
    let rt = tokio::runtime::Builder::new_current_thread().enable_all().build().expect("runtime");
    for c in ctx.cases(ctx.tier.pick(60_000, 2_000_000)) {
        if c % 64 == 0 {
            ctx.checkpoint(out);
            ctx.breadcrumb(c, "round trip");
        }
        if let Some(v) = case(ctx, &rt, c, out) {
            out.violation(v.sig, format!("case {}: {}", c, v.desc), ctx.replay(c, json!({})));
        }
    }
}

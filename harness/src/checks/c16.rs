//! C16 - graceful shutdown terminates, keeps acknowledged data, and tears no reply.

use std::collections::HashMap;
use std::io::Write;
use std::time::{Duration, Instant};

use serde_json::json;

use super::{ncpu, secs, standard_run, Check};
use crate::netcli::{connect, ReadErr, Rx, Server};
use crate::orch::{even_plans, show, CheckSpec, Ctx, Out, Tier};
use crate::resp::{command, encode, ref_parse, RFrame, RefOut};
use crate::rng::Rng;
use crate::shim;
use crate::store::{fresh_dir, Conf, Store};

pub fn check() -> Check {
    Check {
        spec: CheckSpec {
            id: "C16",
            level: "exploration",
            rule: "one case = one shutdown of a child process running the real Server over a real store, with 2-8 clients put into drawn states before the trigger: idle; half a frame sent; streaming commands (the server's data-file writes are delayed 5-60 ms by the shim so that the trigger lands while a command is executing on a blocking thread); reading a large (0.3-1 MB) reply slowly; flooding (requests back to back, never waiting); trickling (a large SET arriving one byte every 1-3 ms, also after the trigger). The shutdown future is completed at a seeded moment. Recorded: microseconds from the trigger to Server::run returning (reported by the child), the complete byte stream every client received until end-of-stream or reset, the store dumped after run() returned. Oracle: run() returns within 15 s plus the injected delays; every client stream parses (reference decoder) as whole replies followed by EOF/reset with no partial frame at the end, and the replies are the right ones for that client's commands in order; per client (own keys, sequential) the dumped store equals the effect of all commands whose reply arrived plus some prefix of the commands sent without a reply. Every 8th case runs the real `svr` binary with SIGINT instead and reopens the directory afterwards. Non-trivial = a shutdown that fired while at least one client was mid-frame or had a command in flight; distinct = by (client states, trigger delay bucket, commands acknowledged).",
            assumptions: vec!["clients always go on reading: a client that never reads its reply makes 'bounded time' and 'no torn reply' contradict each other, so that case is outside the property", "the 15 s bound is wall clock with generous slack (run() returns in milliseconds on this machine)"],
            death_is_violation: false,
        },
        timing_dependent: true,
        run,
        worker,
    }
}

fn run(c: &Check, tier: Tier, seed: u64, t0: Instant) -> i32 {
    let n = ncpu() as u64;
    standard_run(c, tier, seed, t0, even_plans("", n, secs(tier.pick(900, 10_800))), n as usize, 10)
}

#[derive(Clone, Copy, PartialEq, Eq, Debug)]
enum State {
    Idle,
    HalfFrame,
    Streaming,
    BigReply,
    /// keeps requests pending at all times: a writer thread sends SETs back to back without
    /// waiting for replies while the replies are read concurrently
    Flooding,
    /// one complete command, then a large SET that arrives one byte every 1-3 ms and goes on
    /// arriving after the shutdown signal (it would take many minutes to complete)
    Trickling,
}

struct ClientResult {
    state: State,
    /// commands sent in full, in order: (key, Some(value)=SET / None=DEL)
    sent: Vec<(Vec<u8>, Option<Vec<u8>>)>,
    /// expected reply bytes of each sent command
    expected: Vec<Vec<u8>>,
    received: Vec<u8>,
    end: String,
    sent_partial: bool,
    /// keys this client named without ever completing a command on them (must stay absent)
    extra_keys: Vec<Vec<u8>>,
}

fn client(port: u16, id: usize, state: State, seed: u64, stop_after: Duration) -> ClientResult {
    let mut r = Rng::new(seed);
    let mut res = ClientResult { state, sent: vec![], expected: vec![], received: vec![], end: String::new(), sent_partial: false, extra_keys: vec![] };
    let s = match connect(port) {
        Ok(s) => s,
        Err(e) => {
            res.end = format!("connect failed: {}", e);
            return res;
        }
    };
    let mut tx = s.try_clone().unwrap();
    let mut rx = Rx::new(s);
    let key = |i: usize| format!("c{}-k{}", id, i % 3).into_bytes();
    let t0 = Instant::now();
    match state {
        State::Idle => {}
        State::HalfFrame => {
            // one complete command, then half of another
            let k = key(0);
            let v = b"whole".to_vec();
            let _ = tx.write_all(&command(&[b"SET", &k, &v]));
            res.sent.push((k.clone(), Some(v)));
            res.expected.push(b"+OK\r\n".to_vec());
            let full = command(&[b"SET", &key(1), b"never-completed"]);
            res.extra_keys.push(key(1));
            let cut = r.range(1, full.len() as u64 - 1) as usize;
            let _ = tx.write_all(&full[..cut]);
            res.sent_partial = true;
        }
        State::Streaming => {
            // keep commands coming until the connection ends; one at a time or pipelined
            let depth = *r.pick(&[1usize, 1, 3, 8]);
            let mut n = 0usize;
            let mut model: HashMap<Vec<u8>, Vec<u8>> = HashMap::new();
            'outer: loop {
                let mut batch = Vec::new();
                for _ in 0..depth {
                    let k = key(n);
                    if r.chance(4, 5) {
                        let v = format!("v{}-{}", id, n).into_bytes();
                        batch.extend_from_slice(&command(&[b"SET", &k, &v]));
                        model.insert(k.clone(), v.clone());
                        res.sent.push((k, Some(v)));
                        res.expected.push(b"+OK\r\n".to_vec());
                    } else {
                        batch.extend_from_slice(&command(&[b"DEL", &k]));
                        let was = model.remove(&k).is_some();
                        res.sent.push((k, None));
                        res.expected.push(encode(&RFrame::Int(was as i64)));
                    }
                    n += 1;
                }
                if tx.write_all(&batch).is_err() {
                    // the batch may have been sent in part: the last `depth` commands are uncertain
                    break 'outer;
                }
                // wait for this batch's replies (or the end of the stream)
                let want: usize = res.expected.iter().map(|e| e.len()).sum();
                let d = Instant::now() + Duration::from_secs(30);
                loop {
                    rx.poll();
                    if rx.buf.len() >= want {
                        break;
                    }
                    if rx.eof || rx.err.is_some() || Instant::now() > d {
                        break 'outer;
                    }
                }
                if t0.elapsed() > stop_after + Duration::from_secs(20) {
                    break;
                }
            }
        }
        State::Flooding => {
            // the writer runs until the connection breaks (or a generous cap); what it managed
            // to send in full is collected afterwards
            let mut w = tx.try_clone().unwrap();
            let cap = stop_after + Duration::from_secs(25);
            let writer = std::thread::spawn(move || {
                let mut sent: Vec<(Vec<u8>, Option<Vec<u8>>)> = Vec::new();
                let t0 = Instant::now();
                let mut n = 0usize;
                while t0.elapsed() < cap {
                    let k = format!("c{}-k{}", id, n % 3).into_bytes();
                    let v = format!("f{}-{}", id, n).into_bytes();
                    if w.write_all(&command(&[b"SET", &k, &v])).is_err() {
                        break;
                    }
                    sent.push((k, Some(v)));
                    n += 1;
                }
                sent
            });
            // read concurrently until the stream ends
            let end = rx.drain(Instant::now() + cap + Duration::from_secs(20));
            res.end = match end {
                ReadErr::Eof => "eof".into(),
                ReadErr::Reset(e) => format!("reset: {}", e),
                ReadErr::Timeout => "still-open-after-45s".into(),
            };
            let _ = rx.s.shutdown(std::net::Shutdown::Both);
            res.sent = writer.join().unwrap_or_default();
            res.expected = res.sent.iter().map(|_| b"+OK\r\n".to_vec()).collect();
            res.received = std::mem::take(&mut rx.buf);
            return res;
        }
        State::Trickling => {
            let k = key(0);
            let v = b"whole".to_vec();
            let _ = tx.write_all(&command(&[b"SET", &k, &v]));
            res.sent.push((k.clone(), Some(v)));
            res.expected.push(b"+OK\r\n".to_vec());
            let big = command(&[b"SET", &key(1), &vec![b't'; 1_000_000]]);
            res.extra_keys.push(key(1));
            res.sent_partial = true;
            let mut w = tx.try_clone().unwrap();
            let cap = stop_after + Duration::from_secs(25);
            let gap = r.range(1, 3);
            let writer = std::thread::spawn(move || {
                let t0 = Instant::now();
                let mut i = 0usize;
                while t0.elapsed() < cap && i < big.len() {
                    if w.write_all(&big[i..i + 1]).is_err() {
                        break;
                    }
                    i += 1;
                    std::thread::sleep(Duration::from_millis(gap));
                }
            });
            let end = rx.drain(Instant::now() + cap + Duration::from_secs(20));
            res.end = match end {
                ReadErr::Eof => "eof".into(),
                ReadErr::Reset(e) => format!("reset: {}", e),
                ReadErr::Timeout => "still-open-after-45s".into(),
            };
            // the upload goes on after the server's end-of-stream, until the server has closed its side
            // for good (the next byte then fails) or the cap is reached
            let _ = writer.join();
            let _ = rx.s.shutdown(std::net::Shutdown::Both);
            res.received = std::mem::take(&mut rx.buf);
            return res;
        }
        State::BigReply => {
            let k = key(0);
            // half of these replies are larger than what the socket buffers of both sides can absorb
            // (about 4 MB on loopback), so that the handler is parked inside the write when the
            // trigger fires; the client's receive buffer is kept small for the same reason
            let huge = r.chance(1, 2);
            if huge {
                use std::os::unix::io::AsRawFd;
                let sz: libc::c_int = 32 * 1024;
                unsafe { libc::setsockopt(rx.s.as_raw_fd(), libc::SOL_SOCKET, libc::SO_RCVBUF, &sz as *const _ as *const libc::c_void, std::mem::size_of::<libc::c_int>() as u32) };
            }
            let size = if huge { r.range(6_000_000, 12_000_000) } else { r.range(300_000, 1_000_000) } as usize;
            let v = crate::checks::c04::value_for(id as u64 + 1, size);
            // This client must not send anything once the server may have begun to close: a request
            // that arrives after the server's drain has ended resets the connection and tears the
            // reply in flight (with one write per request a pre-empted client thread did that once
            // on a loaded machine, see DESIGN 8). Replies of ordinary size: SET and GETs go out in
            // ONE write. Huge replies: SET and the first GET in one write, then, once +OK is here,
            // the second GET; the server is by then inside the write of a reply that cannot
            // complete before this client reads (6-12 MB against 32 KB of receive buffer), so the
            // second GET sits unread in the server's socket while a reply is being written, and
            // cannot be late however long this thread is held up
            let mut all = command(&[b"SET", &k, &v]);
            res.sent.push((k.clone(), Some(v.clone())));
            res.expected.push(b"+OK\r\n".to_vec());
            let ngets = if huge { 2 } else { r.range(1, 4) };
            let mut later: Vec<u8> = Vec::new();
            for g in 0..ngets {
                let dst = if huge && g > 0 { &mut later } else { &mut all };
                dst.extend_from_slice(&command(&[b"GET", &k]));
                res.sent.push((k.clone(), Some(v.clone())));
                res.expected.push(encode(&RFrame::Bulk(v.clone())));
            }
            let _ = tx.write_all(&all);
            if !later.is_empty() {
                let d = Instant::now() + Duration::from_secs(20);
                while rx.buf.len() < 5 && !rx.eof && rx.err.is_none() && Instant::now() < d {
                    rx.poll();
                }
                if rx.buf.len() >= 5 {
                    let _ = tx.write_all(&later);
                } else {
                    // the server ended the connection before it answered the SET: the second GET was never sent
                    res.sent.pop();
                    res.expected.pop();
                }
            }
            let d = Instant::now() + stop_after + Duration::from_millis(200);
            while Instant::now() < d && !rx.eof && rx.err.is_none() {
                rx.poll();
                std::thread::sleep(Duration::from_millis(3));
            }
        }
    }
    // go on reading until the stream ends
    let end = rx.drain(Instant::now() + Duration::from_secs(45));
    res.end = match end {
        ReadErr::Eof => "eof".into(),
        ReadErr::Reset(e) => format!("reset: {}", e),
        ReadErr::Timeout => "still-open-after-45s".into(),
    };
    res.received = std::mem::take(&mut rx.buf);
    res
}

fn scenario(ctx: &Ctx, case: u64, out: &mut Out) {
    let mut r = Rng::derive(ctx.seed, 0xC16_0000_0000 ^ case);
    let nclients = r.range(2, 8) as usize;
    let dir = fresh_dir(&ctx.scratch, &format!("c{}", case));
    let mut conf = Conf::default();
    conf.conc = 2;
    conf.max_file_size = *r.pick(&[4096u64, 2 * 1024 * 1024 * 1024]);
    let write_delay_max = *r.pick(&[0u32, 5_000, 20_000, 60_000]);
    let mut extra = vec![format!("seed:{}", ctx.seed ^ case)];
    if write_delay_max > 0 {
        extra.push(format!("delay:{},{},{},{},{},{}", shim::C_WRITE, shim::F_DATA, shim::BEFORE, 500_000, write_delay_max / 4, write_delay_max));
    }
    let threads = *r.pick(&[1usize, 2, 4]);
    let mut srv = match Server::spawn(&dir, &conf, 64, threads, &extra) {
        Ok(s) => s,
        Err(e) => {
            out.inconclusive.push(format!("case {}: could not start the server child: {}", case, e));
            return;
        }
    };
    let port = srv.port;
    let trigger_after = Duration::from_millis(*r.pick(&[5u64, 20, 50, 120, 250]) + r.range(0, 30));
    let states: Vec<State> = (0..nclients).map(|i| if i == 0 { *r.pick(&[State::Streaming, State::HalfFrame]) } else { *r.pick(&[State::Idle, State::HalfFrame, State::Streaming, State::Streaming, State::BigReply, State::Flooding, State::Trickling]) }).collect();
    let mut ts = Vec::new();
    for (i, st) in states.iter().enumerate() {
        let st = *st;
        let seed = ctx.seed ^ case.wrapping_mul(977) ^ i as u64;
        ts.push(std::thread::spawn(move || client(port, i, st, seed, trigger_after)));
    }
    std::thread::sleep(trigger_after);
    ctx.breadcrumb(case, "shutdown fired");
    let ret = srv.shutdown(Duration::from_secs(70));
    let results: Vec<ClientResult> = ts.into_iter().filter_map(|t| t.join().ok()).collect();
    out.evaluations += 1;
    out.count("shutdowns", 1);
    for s in &states {
        out.count(&format!("clients_{:?}", s).to_lowercase(), 1);
    }
    let bound_us: u64 = 15_000_000 + write_delay_max as u64 * 4;
    let mut ok = true;
    match &ret {
        Ok(us) => {
            out.max("slowest_return_us", *us);
            if *us > bound_us {
                ok = false;
                out.violation("shutdown-too-slow", format!("case {}: Server::run returned {} ms after the shutdown trigger (bound {} ms) with clients {:?}", case, us / 1000, bound_us / 1000, states), ctx.replay(case, json!({"states": format!("{:?}", states)})));
            }
        }
        Err(e) => {
            ok = false;
            let dead = srv.ended();
            out.violation("shutdown-does-not-terminate", format!("case {}: Server::run did not return after the shutdown trigger ({}), clients {:?}{}", case, e, states, dead.map(|d| format!(" [process ended: {}]", d)).unwrap_or_default()), ctx.replay(case, json!({"states": format!("{:?}", states)})));
        }
    }
    // every client stream: whole replies, the right ones, then the end
    let mut acked_total = 0u64;
    let mut unacked_total = 0u64;
    let mut mid = false;
    let mut all_keys: Vec<Vec<u8>> = Vec::new();
    let mut per_client_allowed: Vec<(usize, Vec<HashMap<Vec<u8>, Option<Vec<u8>>>>)> = Vec::new();
    for (i, c) in results.iter().enumerate() {
        // parse what was received
        let mut o = 0usize;
        let mut n_replies = 0usize;
        let mut torn = false;
        while o < c.received.len() {
            match ref_parse(&c.received[o..]) {
                RefOut::Frame(_, n) => {
                    // must be exactly the expected reply for this position
                    match c.expected.get(n_replies) {
                        Some(e) if e[..] == c.received[o..o + n] => {}
                        Some(e) => {
                            ok = false;
                            out.violation("wrong-reply-around-shutdown", format!("case {} client {} ({:?}): reply #{} is {} but should be {}", case, i, c.state, n_replies, show(&c.received[o..o + n]), show(e)), ctx.replay(case, json!({})));
                        }
                        None => {
                            ok = false;
                            out.violation("unrequested-reply", format!("case {} client {} ({:?}): received a reply nobody asked for: {}", case, i, c.state, show(&c.received[o..o + n])), ctx.replay(case, json!({})));
                        }
                    }
                    o += n;
                    n_replies += 1;
                }
                _ => {
                    torn = true;
                    break;
                }
            }
        }
        if torn {
            ok = false;
            out.violation(
                "torn-reply",
                format!("case {} client {} ({:?}): the stream ended ({}) inside a reply: after {} whole replies came {} more bytes that are not a complete frame: {} (expected reply #{} of {} bytes)", case, i, c.state, c.end, n_replies, c.received.len() - o, show(&c.received[o..]), n_replies, c.expected.get(n_replies).map(|e| e.len()).unwrap_or(0)),
                ctx.replay(case, json!({})),
            );
        }
        if c.end.starts_with("still-open") {
            ok = false;
            out.violation("connection-left-open", format!("case {} client {} ({:?}): 45 s after the shutdown the connection was neither closed nor reset", case, i, c.state), ctx.replay(case, json!({})));
        }
        out.count("replies_verified", n_replies as u64);
        acked_total += n_replies as u64;
        unacked_total += (c.sent.len() - n_replies.min(c.sent.len())) as u64;
        if c.sent_partial || c.sent.len() > n_replies {
            mid = true;
        }
        // allowed final states of this client's keys: acked prefix, then any prefix of the rest
        let mut m: HashMap<Vec<u8>, Option<Vec<u8>>> = HashMap::new();
        let mut allowed = Vec::new();
        for (j, (k, v)) in c.sent.iter().enumerate() {
            if j >= n_replies {
                allowed.push(m.clone());
            }
            m.insert(k.clone(), v.clone());
            if !all_keys.contains(k) {
                all_keys.push(k.clone());
            }
        }
        allowed.push(m);
        // every key of this client is judged in every candidate state (absent unless set there)
        let mut mine: Vec<Vec<u8>> = c.sent.iter().map(|x| x.0.clone()).collect();
        mine.extend(c.extra_keys.iter().cloned());
        mine.sort();
        mine.dedup();
        for k in &mine {
            if !all_keys.contains(k) {
                all_keys.push(k.clone());
            }
            for m in allowed.iter_mut() {
                m.entry(k.clone()).or_insert(None);
            }
        }
        per_client_allowed.push((i, allowed));
    }
    // the store after run() returned
    if ret.is_ok() {
        match srv.dump(&all_keys) {
            Ok(d) => {
                for (i, allowed) in &per_client_allowed {
                    let fits = allowed.iter().any(|m| m.iter().all(|(k, v)| d.get(k).cloned().unwrap_or(Ok(None)) == Ok(v.clone())));
                    out.count("client_key_sets_compared", 1);
                    if !fits {
                        ok = false;
                        let c = &results[*i];
                        let acked = allowed.first().map(|m| m.len()).unwrap_or(0);
                        let _ = acked;
                        out.violation(
                            "acknowledged-command-not-in-store",
                            format!("case {} client {} ({:?}): after Server::run returned the store does not hold the effect of the {} commands whose replies the client received plus a prefix of the {} it sent without a reply (keys {:?})", case, i, c.state, c.sent.len() + 1 - allowed.len(), allowed.len() - 1, c.sent.iter().map(|x| show(&x.0)).collect::<std::collections::BTreeSet<_>>()),
                            ctx.replay(case, json!({})),
                        );
                    }
                }
            }
            Err(e) => out.inconclusive.push(format!("case {}: dump after shutdown failed: {}", case, e)),
        }
    }
    out.count("commands_acknowledged", acked_total);
    out.count("commands_sent_without_reply", unacked_total);
    if mid {
        out.count("shutdowns_with_a_client_mid_frame_or_mid_command", 1);
    }
    if ok && mid {
        out.class(format!("{:?}-t{}-a{}", states, trigger_after.as_millis() / 10, acked_total));
    }
    out.class_counter(&format!("states:{:?}", { let mut s: Vec<String> = states.iter().map(|s| format!("{:?}", s)).collect(); s.sort(); s.dedup(); s }));
    if out.samples.len() < 3 && (case % 13 == 4 || out.samples.is_empty()) {
        out.sample(json!({"case": case, "clients": format!("{:?}", states), "trigger_after_ms": trigger_after.as_millis() as u64, "returned_after_us": ret.as_ref().ok(), "acknowledged": acked_total, "sent_without_reply": unacked_total, "ends": results.iter().map(|c| c.end.clone()).collect::<Vec<_>>()}));
    }
    srv.stop();
    let _ = std::fs::remove_dir_all(&dir);
}

/// The real `svr` binary: SIGINT, exit status, directory reopened afterwards.
fn svr_scenario(ctx: &Ctx, case: u64, out: &mut Out) {
    let bin = match std::env::var("BCVERIF_SVR_BIN") {
        Ok(b) if std::path::Path::new(&b).exists() => b,
        _ => {
            out.count("svr_binary_scenarios_skipped_no_binary", 1);
            return;
        }
    };
    let mut r = Rng::derive(ctx.seed, 0xC16_5555_0000 ^ case);
    let work = fresh_dir(&ctx.scratch, &format!("svr{}", case));
    let db = work.join("db");
    let port = crate::netcli::free_port();
    let cfg = format!(
        "net.host = \"127.0.0.1\"\nnet.port = {}\nnet.min_backoff_ms = 1\nnet.max_backoff_ms = 64\nnet.max_connections = 16\nstorage.path = \"{}\"\nstorage.concurrency = 2\nstorage.readers_cache_size = 16\nstorage.max_file_size = 4096\nstorage.sync = \"none\"\nstorage.merge.policy = \"never\"\nstorage.merge.check_interval_ms = 180000\nstorage.merge.check_jitter = 0.3\nstorage.merge.triggers.fragmentation = 0.6\nstorage.merge.triggers.dead_bytes = 512000000\nstorage.merge.thresholds.fragmentation = 0.4\nstorage.merge.thresholds.dead_bytes = 128000000\nstorage.merge.thresholds.small_file = 10000000\n",
        port,
        db.display()
    );
    std::fs::write(work.join("config.toml"), cfg).unwrap();
    let mut child = match std::process::Command::new(&bin).arg("--config").arg(work.join("config")).current_dir(&work).stdin(std::process::Stdio::null()).stdout(std::process::Stdio::null()).stderr(std::process::Stdio::null()).spawn() {
        Ok(c) => c,
        Err(e) => {
            out.inconclusive.push(format!("could not start {}: {}", bin, e));
            return;
        }
    };
    // wait until it listens
    let t0 = Instant::now();
    let mut conn = None;
    while t0.elapsed() < Duration::from_secs(20) {
        if let Ok(s) = connect(port) {
            conn = Some(s);
            break;
        }
        if let Ok(Some(st)) = child.try_wait() {
            out.inconclusive.push(format!("svr exited early: {:?}", st));
            return;
        }
        std::thread::sleep(Duration::from_millis(20));
    }
    let s = match conn {
        Some(s) => s,
        None => {
            let _ = child.kill();
            let _ = child.wait();
            out.inconclusive.push("svr did not start listening within 20 s".into());
            return;
        }
    };
    out.evaluations += 1;
    out.count("svr_binary_shutdowns", 1);
    let mut tx = s.try_clone().unwrap();
    let mut rx = Rx::new(s);
    let mut model: HashMap<Vec<u8>, Vec<u8>> = HashMap::new();
    let n = r.range(5, 60);
    for i in 0..n {
        let k = format!("k{}", i % 7).into_bytes();
        let v = crate::seqeng::make_value(&mut r, i, (i as usize * 37) % 900 + 1);
        let _ = tx.write_all(&command(&[b"SET", &k, &v]));
        match rx.reply(Instant::now() + Duration::from_secs(20)) {
            Ok(RFrame::Simple(_)) => {
                model.insert(k, v);
            }
            other => {
                out.violation("svr-wrong-reply", format!("svr binary: SET got {:?}", other.map(|f| crate::resp::brief(&f)).map_err(|e| format!("{:?}", e))), ctx.replay(case, json!({})));
                let _ = child.kill();
                let _ = child.wait();
                return;
            }
        }
    }
    // make sure it is our process that answered (its data directory exists and it is alive)
    if !db.is_dir() || !matches!(child.try_wait(), Ok(None)) {
        let _ = child.kill();
        let _ = child.wait();
        out.count("svr_binary_scenarios_discarded_port_taken", 1);
        return;
    }
    // a second client sits mid-frame
    let mut idle = connect(port).ok();
    if let Some(c) = idle.as_mut() {
        let _ = c.write_all(b"*3\r\n$3\r\nSET\r\n$1\r\nq");
    }
    unsafe { libc::kill(child.id() as i32, libc::SIGINT) };
    let t1 = Instant::now();
    let mut status = None;
    while t1.elapsed() < Duration::from_secs(20) {
        if let Ok(Some(st)) = child.try_wait() {
            status = Some(st);
            break;
        }
        std::thread::sleep(Duration::from_millis(5));
    }
    match status {
        None => {
            let _ = child.kill();
            let _ = child.wait();
            out.violation("svr-does-not-exit-on-sigint", "the svr binary was still running 20 s after SIGINT with one idle and one mid-frame client".into(), ctx.replay(case, json!({})));
        }
        Some(st) => {
            out.max("svr_exit_ms", t1.elapsed().as_millis() as u64);
            if !st.success() {
                out.violation("svr-exit-status", format!("the svr binary ended with {:?} after SIGINT", st), ctx.replay(case, json!({})));
            }
            // the client's stream must end cleanly
            let end = rx.drain(Instant::now() + Duration::from_secs(10));
            if !rx.buf.is_empty() {
                out.violation("torn-reply", format!("svr binary: {} stray bytes after the last reply ({:?})", rx.buf.len(), end), ctx.replay(case, json!({})));
            }
            // reopen the directory with the library
            let mut c2 = Conf::default();
            c2.conc = 1;
            match Store::open(&db, &c2) {
                Ok(st) => {
                    for (k, v) in &model {
                        out.count("svr_keys_compared", 1);
                        if st.get(k).ok().flatten().as_ref() != Some(v) {
                            out.violation("acknowledged-command-not-in-store", format!("svr binary: key {} acknowledged before SIGINT does not read back after reopening the directory", show(k)), ctx.replay(case, json!({})));
                            break;
                        }
                    }
                    out.class(format!("svr-n{}", n));
                }
                Err(e) => out.violation("svr-directory-cannot-be-opened", format!("after SIGINT the directory cannot be opened: {}", e), ctx.replay(case, json!({}))),
            }
        }
    }
    let _ = std::fs::remove_dir_all(&work);
}

fn worker(ctx: &Ctx, out: &mut Out) {
    for case in ctx.cases(ctx.tier.pick(480, 6000)) {
        ctx.checkpoint(out);
        ctx.breadcrumb(case, "scenario");
        if case % 8 == 7 {
            svr_scenario(ctx, case, out);
        } else {
            scenario(ctx, case, out);
        }
        if out.violations.len() > 8 {
            break;
        }
    }
}

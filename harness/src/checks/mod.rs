//! One module per property. Each provides the orchestration (`run`) and the per-process work (`worker`).

use std::time::{Duration, Instant};

use crate::orch::{conclude, run_workers, CheckSpec, Ctx, Out, Tier, WorkerPlan};

pub mod c01;
pub mod c04;
pub mod c06;
pub mod c07;
pub mod c08;
pub mod c10;
pub mod c11;
pub mod c15;
pub mod c16;
pub mod c17;
pub mod c18;
pub mod c14;
pub mod c20;
pub mod crash;
pub mod seqchecks;

pub struct Check {
    pub spec: CheckSpec,
    /// a violation depends on thread timing: replay reruns the seeded case several times
    pub timing_dependent: bool,
    pub run: fn(&Check, Tier, u64, Instant) -> i32,
    pub worker: fn(&Ctx, &mut Out),
}

pub fn get(id: &str) -> Option<Check> {
    match id {
        "C01" => Some(c01::check()),
        "C03" => Some(crash::check("C03")),
        "C09" => Some(crash::check("C09")),
        "C14" => Some(c14::check()),
        "C20" => Some(c20::check()),
        "C07" => Some(c07::check()),
        "C08" => Some(c08::check()),
        "C04" => Some(c04::check()),
        "C06" => Some(c06::check()),
        "C10" => Some(c10::check()),
        "C11" => Some(c11::check()),
        "C15" => Some(c15::check()),
        "C16" => Some(c16::check()),
        "C17" => Some(c17::check()),
        "C18" => Some(c18::check()),
        "C02" => Some(seqchecks::check("C02")),
        "C05" => Some(seqchecks::check("C05")),
        "C12" => Some(seqchecks::check("C12")),
        "C13" => Some(seqchecks::check("C13")),
        "C19" => Some(seqchecks::check("C19")),
        _ => None,
    }
}

pub fn ncpu() -> usize {
    std::thread::available_parallelism().map(|n| n.get()).unwrap_or(4).min(16)
}

/// Spread the work over `n` identical workers and conclude.
pub fn standard_run(c: &Check, tier: Tier, seed: u64, t0: Instant, plans: Vec<WorkerPlan>, par: usize, min_nontrivial: u64) -> i32 {
    let out = run_workers(&c.spec, tier, seed, plans, par);
    let mut extra = serde_json::json!({});
    if let Ok(m) = std::env::var("BCVERIF_MIRI_SUMMARY") {
        extra["miri"] = serde_json::json!(m);
    }
    conclude(&c.spec, tier, seed, out, t0.elapsed().as_secs_f64(), min_nontrivial, extra)
}

pub fn secs(n: u64) -> Duration {
    Duration::from_secs(n)
}

/// Run one case with panics of the code under test turned into a violation.
pub fn guarded<F: FnOnce(&mut Out)>(ctx: &Ctx, out: &mut Out, case: u64, what: &str, f: F) {
    ctx.breadcrumb(case, what);
    let r = std::panic::catch_unwind(std::panic::AssertUnwindSafe(|| f(out)));
    if r.is_err() {
        let msg = crate::last_panic();
        out.violation(&format!("panic:{}", crate::panic_site(&msg)), format!("case {}: panic: {}", case, msg), ctx.replay(case, serde_json::json!({"panic": msg})));
    }
}

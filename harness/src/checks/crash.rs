//! C03 (process crash at every file-system call boundary) and C09 (power loss under sync=always).
//!
//! A single-threaded episode is recorded through the I/O shim. A killed process leaves exactly the
//! effect of a prefix of its calls, so every kill point of the recorded run is rebuilt from the log
//! with the directory model, opened with the real code and checked against the map model of the
//! operations that had been acknowledged by then.

use std::collections::{BTreeSet, HashMap};
use std::path::{Path, PathBuf};
use std::time::Instant;

use serde_json::{json, Value};

use super::{ncpu, secs, standard_run, Check};
use crate::dirmodel::{is_effect, DirModel, FileObj};
use crate::orch::{even_plans, hex, show, CheckSpec, Ctx, Out, Tier};
use crate::plan::{gen_plan, plan_json, run_recorded, OpRes, POp, Plan, PlanOpts};
use crate::rng::Rng;
use crate::seqeng::{fail, Fail};
use crate::shim::*;
use crate::store::{fresh_dir, Conf, Store, SyncMode};

pub fn check(id: &'static str) -> Check {
    let (rule, assumptions): (&'static str, Vec<&'static str>) = if id == "C03" {
        (
            "one recorded episode = a generated single-threaded plan (15-60 ops: set/del/get with entries below and above the 8 KiB write buffer, merge passes, reopen cycles, small max_file_size so that rollovers and multi-file merge outputs occur) executed on the real store with every file-system call on the store directory logged. One evaluation = one kill point: for EVERY prefix of the logged directory-changing calls (create, write, unlink) the directory is rebuilt from the log, opened with the real code and every key read: each must equal the map model of the operations acknowledged before the kill, the single in-flight operation's key may read either way; then a continuation (set/overwrite/three deletes, close, reopen, read everything, one merge pass, read everything, close, reopen, read everything) must also agree. Exhaustive per recorded episode; episodes are sampled. Non-trivial/distinct = distinct (directory content hash, acknowledged prefix) states that were opened.",
            vec![
                "a kill is modelled at file-system call boundaries (a single write call is atomic), as the property states; in a quarter of the episodes the shim completes half of the writes of two or more bytes only partly (a legal short count), so that the boundary inside an entry exists as a kill point",
                "the shim sees every call that changes the directory: checked after each recording by replaying the log into a model and comparing it byte for byte with the real directory (mismatch = inconclusive)",
                "single-threaded episodes, so the acknowledged set at a kill point is unambiguous",
            ],
        )
    } else {
        (
            "as C03, but recorded under sync=always and with fsync calls as additional crash points. One evaluation = one power-loss state: at every call boundary the directory is rebuilt with files cut back towards the length at their last completed fsync (variants: every file at its synced length; each unsynced file alone at its synced length; seeded random cuts at write boundaries and inside writes), creations and removals kept as issued. Every operation acknowledged before the point must read as the model says (the in-flight one either way), open and every get must succeed. Non-trivial/distinct = distinct states in which at least one file really had an unsynced suffix cut off.",
            vec![
                "failure model as stated in the property: per file any suffix after its last completed fsync may be lost, directory entries are durable",
                "the shim sees every call that changes the directory (fidelity self-check as in C03)",
            ],
        )
    };
    Check { spec: CheckSpec { id, level: "fault_enumeration", rule, assumptions, death_is_violation: true }, timing_dependent: false, run, worker }
}

fn total_cases(id: &str, t: Tier) -> u64 {
    if id == "C03" {
        t.pick(2000, 40_000)
    } else {
        t.pick(1000, 24_000)
    }
}

fn run(c: &Check, tier: Tier, seed: u64, t0: Instant) -> i32 {
    let n = ncpu() as u64;
    standard_run(c, tier, seed, t0, even_plans("", n, secs(tier.pick(900, 10_800))), n as usize, 50)
}

/// key -> values it may read as (None = absent)
pub type Expect = Vec<(Vec<u8>, Vec<Option<Vec<u8>>>)>;

fn recovery_conf(c: &Conf) -> Conf {
    let mut r = c.clone();
    r.sync = SyncMode::None;
    r
}

fn desc_val(v: &Option<Vec<u8>>) -> String {
    match v {
        Some(v) => format!("{}B:{}", v.len(), show(v)),
        None => "nothing".into(),
    }
}

/// Open a crash directory with the real code and apply the oracle. The directory is modified (the
/// continuation writes to it).
pub fn check_crash_dir(dir: &Path, conf: &Conf, expect: &Expect, continuation: bool) -> Result<(), Fail> {
    let guard = std::panic::catch_unwind(std::panic::AssertUnwindSafe(|| -> Result<(), Fail> {
        let conf = recovery_conf(conf);
        let mut st = match Store::open(dir, &conf) {
            Ok(s) => s,
            Err(e) => return fail("open-failed-after-crash", format!("the directory left by the crash cannot be opened: {}", e)),
        };
        let mut model: HashMap<Vec<u8>, Vec<u8>> = HashMap::new();
        for (k, allowed) in expect {
            match st.get(k) {
                Err(e) => return fail("get-error-after-crash", format!("get({}) on the recovered store returned {:?}", show(k), e)),
                Ok(g) => {
                    if !allowed.contains(&g) {
                        let sig = match (&g, allowed.iter().any(|a| a.is_some())) {
                            (Some(_), false) => "resurrected-after-crash",
                            (None, _) => "acknowledged-write-lost-after-crash",
                            _ => "wrong-value-after-crash",
                        };
                        return fail(sig, format!("key {} reads {} on the recovered store; allowed: {}", show(k), desc_val(&g), allowed.iter().map(desc_val).collect::<Vec<_>>().join(" or ")));
                    }
                    if let Some(v) = g {
                        model.insert(k.clone(), v);
                    }
                }
            }
        }
        if continuation {
            // the recovered store has to be usable, not merely readable
            let keys: Vec<Vec<u8>> = expect.iter().map(|x| x.0.clone()).collect();
            let step = |st: &Store, model: &mut HashMap<Vec<u8>, Vec<u8>>, k: &[u8], v: Option<&[u8]>| -> Result<(), Fail> {
                match v {
                    Some(v) => {
                        if let Err(e) = st.set(k, v) {
                            return fail("set-error-after-crash", format!("set({}) on the recovered store returned {:?}", show(k), e));
                        }
                        model.insert(k.to_vec(), v.to_vec());
                    }
                    None => {
                        let want = model.contains_key(k);
                        match st.del(k) {
                            Err(e) => return fail("del-error-after-crash", format!("del({}) on the recovered store returned {:?}", show(k), e)),
                            Ok(b) if b != want => return fail("del-wrong-after-crash", format!("del({}) on the recovered store returned {} but the key was {}", show(k), b, if want { "present" } else { "absent" })),
                            Ok(_) => {}
                        }
                        model.remove(k);
                    }
                }
                Ok(())
            };
            step(&st, &mut model, b"\x02continuation", Some(b"after-crash-1"))?;
            if !keys.is_empty() {
                step(&st, &mut model, &keys[0], Some(b"after-crash-2-overwrite"))?;
                step(&st, &mut model, &keys[keys.len() / 2], None)?;
                step(&st, &mut model, &keys[keys.len() / 4], None)?;
                step(&st, &mut model, &keys[(3 * keys.len()) / 4], None)?;
            }
            let readback = |st: &Store, model: &HashMap<Vec<u8>, Vec<u8>>, when: &str| -> Result<(), Fail> {
                let mut ks = keys.clone();
                ks.push(b"\x02continuation".to_vec());
                for k in &ks {
                    match st.get(k) {
                        Err(e) => return fail("get-error-after-crash", format!("{}: get({}) returned {:?}", when, show(k), e)),
                        Ok(g) if g.as_ref() != model.get(k) => {
                            return fail("continuation-diverged-after-crash", format!("{}: key {} reads {} but should read {}", when, show(k), desc_val(&g), desc_val(&model.get(k).cloned())))
                        }
                        Ok(_) => {}
                    }
                }
                Ok(())
            };
            readback(&st, &model, "continuation on the recovered store")?;
            st.close();
            drop(st);
            let st2 = match Store::open(dir, &conf) {
                Ok(s) => s,
                Err(e) => return fail("open-failed-after-crash", format!("second open after the continuation failed: {}", e)),
            };
            readback(&st2, &model, "after continuation and another reopen")?;
            // and it has to stay right through a compaction: what the interrupted run left behind
            // (half-made merge outputs, copies that exist twice) must not come back once a later
            // merge has removed the files that superseded it
            if let Err(e) = st2.merge() {
                return fail("merge-error-after-crash", format!("a merge on the recovered store returned {:?}", e));
            }
            readback(&st2, &model, "after continuation, reopen and a merge")?;
            drop(st2);
            let st3 = match Store::open(dir, &conf) {
                Ok(s) => s,
                Err(e) => return fail("open-failed-after-crash", format!("third open, after the continuation's merge, failed: {}", e)),
            };
            readback(&st3, &model, "after continuation, a merge and another reopen")?;
        }
        Ok(())
    }));
    match guard {
        Ok(r) => r,
        Err(_) => {
            let msg = crate::last_panic();
            fail(&format!("panic-after-crash:{}", crate::panic_site(&msg)), format!("panic while opening/reading the recovered store: {}", msg))
        }
    }
}

fn expect_json(e: &Expect) -> Value {
    Value::Array(
        e.iter()
            .map(|(k, a)| json!({"key": hexfull(k), "allowed": a.iter().map(|v| v.as_ref().map(|b| hexfull(b))).collect::<Vec<_>>()}))
            .collect(),
    )
}
fn hexfull(b: &[u8]) -> String {
    b.iter().map(|x| format!("{:02x}", x)).collect()
}
fn unhex(s: &str) -> Vec<u8> {
    (0..s.len() / 2).map(|i| u8::from_str_radix(&s[2 * i..2 * i + 2], 16).unwrap_or(0)).collect()
}
fn expect_from_json(v: &Value) -> Expect {
    v.as_array()
        .map(|a| {
            a.iter()
                .map(|e| {
                    (
                        unhex(e["key"].as_str().unwrap_or("")),
                        e["allowed"].as_array().map(|x| x.iter().map(|y| y.as_str().map(unhex)).collect()).unwrap_or_default(),
                    )
                })
                .collect()
        })
        .unwrap_or_default()
}

/// Keep a failing crash directory so that the witness replays exactly.
fn save_witness(ctx: &Ctx, case: u64, point: usize, variant: &str, src: &Path, conf: &Conf, expect: &Expect) -> Value {
    let root = crate::orch::verif_root().join("replays");
    let keep = root.join(format!("{}-{}-case{}-p{}-{}.dir", ctx.id, ctx.seed, case, point, variant));
    let _ = std::fs::create_dir_all(&root);
    crate::store::copy_dir(src, &keep, None);
    json!({"crash_dir": keep.to_str(), "conf": conf.to_json(Path::new("/unused")), "expect": expect_json(expect), "point": point, "variant": variant})
}

fn phase_of(plan: &Plan, inflight: Option<usize>, last: Option<&Ev>) -> String {
    let op = match inflight {
        None => "between-ops".to_string(),
        Some(usize::MAX) => "initial-open".to_string(),
        Some(i) => match &plan.ops[i] {
            POp::Set { v, .. } => if v.len() > 8000 { "set-large".into() } else { "set".into() },
            POp::Del { .. } => "del".into(),
            POp::Get { .. } => "get".into(),
            POp::Merge => "merge".into(),
            POp::Reopen(_) => "reopen".into(),
        },
    };
    let ev = match last {
        None => "start".to_string(),
        Some(e) => format!("{}-{}", e.kind_name(), if e.name.ends_with(".hint") { "hint" } else { "data" }),
    };
    format!("{}/{}", op, ev)
}

struct Boundary {
    /// index in the event list of the last call included in the prefix (None = nothing yet)
    upto: Option<usize>,
    /// operations acknowledged at the latest moment this directory state can be observed
    acked: usize,
    /// operation in flight at that moment (usize::MAX = the initial open)
    inflight: Option<usize>,
}

/// All kill points of a recorded run. `with_sync` also cuts at fsync calls.
fn boundaries(events: &[Ev], with_sync: bool) -> Vec<Boundary> {
    let pts: Vec<usize> = events
        .iter()
        .enumerate()
        .filter(|(_, e)| is_effect(e) || (with_sync && (e.kind == K_FSYNC || e.kind == K_FDATASYNC) && e.result == 0))
        .map(|(i, _)| i)
        .collect();
    let mut out = Vec::new();
    for p in 0..=pts.len() {
        let upto = if p == 0 { None } else { Some(pts[p - 1]) };
        let next = if p < pts.len() { pts[p] } else { events.len() };
        let mut acked = 0usize;
        let mut inflight = None;
        for e in &events[..next] {
            if e.is_mark(M_OP_BEGIN) {
                inflight = Some(if e.a == u64::MAX { usize::MAX } else { e.a as usize });
            } else if e.is_mark(M_OP_END) {
                inflight = None;
                if e.a != u64::MAX {
                    acked = e.a as usize + 1;
                }
            }
        }
        out.push(Boundary { upto, acked, inflight });
    }
    out
}

fn expectation(plan: &Plan, b: &Boundary, results: &[OpRes]) -> Expect {
    // per key: what it may read as. An acknowledged write leaves exactly its value; a write that
    // returned an error (an injected I/O failure) may or may not have taken effect, and so may the
    // operation in flight at the kill
    let mut allowed: HashMap<Vec<u8>, Vec<Option<Vec<u8>>>> = HashMap::new();
    let mut note = |i: usize, sure: bool| {
        let (k, want) = match &plan.ops[i] {
            POp::Set { k, v } => (plan.keys[*k].clone(), Some(v.clone())),
            POp::Del { k } => (plan.keys[*k].clone(), None),
            _ => return,
        };
        if sure {
            allowed.insert(k, vec![want]);
        } else {
            let a = allowed.entry(k).or_insert_with(|| vec![None]);
            if !a.contains(&want) {
                a.push(want);
            }
        }
    };
    for i in 0..b.acked.min(plan.ops.len()) {
        note(i, !results.get(i).map(|r| r.is_err()).unwrap_or(true));
    }
    if let Some(i) = b.inflight {
        if i != usize::MAX && i < plan.ops.len() {
            note(i, false);
        }
    }
    let mut e: Expect = Vec::new();
    for k in plan.keys.iter() {
        e.push((k.clone(), allowed.get(k).cloned().unwrap_or_else(|| vec![None])));
    }
    e.push((b"\x01never-written\x02".to_vec(), vec![None]));
    e
}

fn episode(ctx: &Ctx, case: u64, out: &mut Out) {
    let power = ctx.id == "C09";
    let mut r = Rng::derive(ctx.seed, if power { 0xC09_0000_0000 } else { 0xC03_0000_0000 } ^ case);
    let opts = PlanOpts {
        min_ops: 12,
        max_ops: ctx.tier.pick(45, 70),
        sync: if power { SyncMode::Always } else { SyncMode::None },
        merge_pct: *r.pick(&[6u64, 10, 15]),
        reopen_pct: *r.pick(&[0u64, 4, 8]),
        big_ok: true,
        huge_values: false,
    };
    let plan = gen_plan(&mut r, &opts);
    let dir = fresh_dir(&ctx.scratch, &format!("c{}", case));
    // in a quarter of the episodes the file system completes half of the larger writes only partly (a
    // legal short count): write_all comes back with the rest, and the boundary between the two
    // calls is a kill point at which an entry is in the file in part
    let short = case % 4 == 3;
    if short {
        crate::shim::short_writes(500_000, Rng::derive(ctx.seed, 0xC03_5000_0000 ^ case).next_u64() | 1);
    }
    // another quarter: one file-system call of the episode fails (ENOSPC/EIO on a create, write,
    // fsync or unlink). The operation it belongs to returns an error and may or may not have taken
    // effect; everything acknowledged before and after it has to survive the kill / power loss
    // all the same (a merge repeated after it failed, a file abandoned after a failed append)
    let fault_at = if case % 4 == 1 {
        // half of the time inside a merge pass (its calls are many: up to the 16th), else anywhere
        let merges: Vec<usize> = plan.ops.iter().enumerate().filter(|(_, o)| matches!(o, POp::Merge)).map(|(i, _)| i).collect();
        // (a third of those on one of the pass's unlink calls: they come last, after any number of
        // writes and syncs)
        let (at, nth, cls) = if !merges.is_empty() && r.chance(1, 2) {
            if r.chance(1, 3) {
                (*r.pick(&merges), r.below(6) as i64, C_UNLINK)
            } else {
                (*r.pick(&merges), r.below(16) as i64, C_CREATE | C_WRITE | C_FSYNC | C_UNLINK)
            }
        } else {
            (r.below(plan.ops.len() as u64) as usize, r.below(5) as i64, C_CREATE | C_WRITE | C_FSYNC | C_UNLINK)
        };
        Some((at, nth, if r.chance(1, 2) { libc::ENOSPC } else { libc::EIO }, cls))
    } else {
        None
    };
    let rec = run_recorded(&dir, &plan, true, |i| {
        if let Some((at, nth, errno, cls)) = fault_at {
            if i == at {
                crate::shim::fail(cls, F_ANY, nth, errno);
            }
        }
    });
    let fault_hit = fault_at.is_some() && crate::shim::fail_hit().is_some();
    if std::env::var_os("BCVERIF_VERBOSE").is_some() {
        for e in &rec.events {
            if e.is_mark(M_OP_BEGIN) && e.a != u64::MAX {
                eprintln!("op {} {} -> {}", e.a, plan.ops[e.a as usize].brief(), rec.results.get(e.a as usize).map(|r| r.brief()).unwrap_or_default());
            } else if e.kind != K_CLOSE && e.kind != K_MMAP && e.kind != K_MARK && !(e.kind == K_OPEN && e.a & libc::O_CREAT as u64 == 0) {
                eprintln!("     {}", e.brief());
            }
        }
    }
    crate::shim::fail_off();
    crate::shim::short_writes(0, 0);
    out.count("episodes_recorded", 1);
    if short {
        out.count("episodes_with_short_writes", 1);
    }
    if fault_hit {
        out.count("episodes_with_one_failed_call", 1);
    }
    // the one operation during which the injected failure happened may return an error
    let faulted_op: Option<usize> = if fault_hit {
        let mut cur = None;
        let mut found = None;
        for e in &rec.events {
            if e.is_mark(M_OP_BEGIN) && e.a != u64::MAX {
                cur = Some(e.a as usize);
            } else if e.is_mark(M_OP_END) {
                cur = None;
            } else if e.injected() {
                found = cur;
            }
        }
        found
    } else {
        None
    };
    let other_failures = rec.results.iter().enumerate().any(|(i, x)| x.is_err() && Some(i) != faulted_op) || rec.results.iter().any(|x| matches!(x, OpRes::Panic(_))) || rec.results.len() < plan.ops.len();
    if rec.open_err.is_some() || other_failures {
        // an operation failing without any fault is C01's subject, not a crash question
        out.count("episodes_skipped_op_failed", 1);
        let _ = std::fs::remove_dir_all(&dir);
        return;
    }
    // fidelity self-check: the log must explain the directory byte for byte
    let mut full = DirModel::new();
    for e in &rec.events {
        full.apply(e);
    }
    if !full.problems.is_empty() {
        out.inconclusive.push(format!("case {}: the call log contains something the directory model cannot represent: {}", case, full.problems[0]));
        let _ = std::fs::remove_dir_all(&dir);
        return;
    }
    if let Some(d) = full.diff_with(&dir) {
        out.inconclusive.push(format!("case {}: the call log does not explain the directory ({}); bytes reached it by a route the shim does not see", case, d));
        let _ = std::fs::remove_dir_all(&dir);
        return;
    }
    let _ = std::fs::remove_dir_all(&dir);
    out.count("calls_logged", rec.events.iter().filter(|e| e.kind != K_MARK).count() as u64);

    let bs = boundaries(&rec.events, power);
    out.count("crash_points", bs.len() as u64);
    let mut model = DirModel::new();
    let mut applied = 0usize;
    let mut seen: BTreeSet<(u64, usize, Option<usize>)> = BTreeSet::new();
    let crash = ctx.scratch.join(format!("c{}-crash", case));
    for (pi, b) in bs.iter().enumerate() {
        if let Some(u) = b.upto {
            while applied <= u {
                model.apply(&rec.events[applied]);
                applied += 1;
            }
        }
        let last = b.upto.map(|u| &rec.events[u]);
        if let Some(l) = last {
            if matches!(l.kind, K_WRITE | K_PWRITE) && l.result >= 0 && (l.result as u64) < l.b {
                out.count("crash_points_with_an_entry_written_in_part", 1);
            }
        }
        let phase = phase_of(&plan, b.inflight, last);
        let expect = expectation(&plan, b, &rec.results);
        // which states to build at this point
        let mut variants: Vec<(String, Option<HashMap<String, usize>>)> = Vec::new();
        if !power {
            variants.push(("kill".into(), None));
        } else {
            let unsynced: Vec<(String, usize, usize, Vec<usize>)> = model
                .names
                .iter()
                .map(|(n, i)| (n.clone(), &model.files[*i]))
                .filter(|(_, f)| f.synced < f.bytes.len())
                .map(|(n, f)| (n, f.synced, f.bytes.len(), f.write_ends.clone()))
                .collect();
            if unsynced.is_empty() {
                variants.push(("nothing-unsynced".into(), None));
            } else {
                variants.push(("all-at-synced-length".into(), Some(unsynced.iter().map(|(n, s, _, _)| (n.clone(), *s)).collect())));
                if unsynced.len() > 1 {
                    for (n, s, _, _) in &unsynced {
                        variants.push((format!("only-{}-at-synced-length", n), Some([(n.clone(), *s)].into_iter().collect())));
                    }
                }
                for v in 0..2 {
                    let mut cuts = HashMap::new();
                    for (n, s, l, ends) in &unsynced {
                        let c = match r.below(3) {
                            0 => *s,
                            1 => {
                                // a write boundary at or after the synced length
                                let cands: Vec<usize> = ends.iter().cloned().filter(|e| *e >= *s && *e <= *l).collect();
                                if cands.is_empty() { *s } else { *r.pick(&cands) }
                            }
                            _ => r.range(*s as u64, *l as u64) as usize,
                        };
                        cuts.insert(n.clone(), c);
                    }
                    variants.push((format!("random-cut-{}", v), Some(cuts)));
                }
            }
        }
        for (vname, cuts) in variants {
            let cut_any = cuts.as_ref().map(|c| c.iter().any(|(n, l)| model.file(n).map(|f| *l < f.bytes.len()).unwrap_or(false))).unwrap_or(false);
            let mut h = model.hash();
            if let Some(c) = &cuts {
                let mut items: Vec<(&String, &usize)> = c.iter().collect();
                items.sort();
                for (n, l) in items {
                    h = h.wrapping_mul(0x100000001b3) ^ crate::orch::fnv(n.as_bytes()) ^ (*l as u64).wrapping_mul(0x9E3779B97F4A7C15);
                }
            }
            if !seen.insert((h, b.acked, b.inflight)) {
                out.count("states_deduplicated", 1);
                continue;
            }
            ctx.breadcrumb(case, &format!("crash point {} variant {}", pi, vname));
            let _ = std::fs::remove_dir_all(&crash);
            std::fs::create_dir_all(&crash).unwrap();
            match &cuts {
                None => model.materialise(&crash, None),
                Some(c) => {
                    let f = |n: &str, f: &FileObj| c.get(n).cloned().unwrap_or(f.bytes.len());
                    model.materialise(&crash, Some(&f));
                }
            }
            // keep an untouched copy only if needed: re-materialise on failure instead
            let res = check_crash_dir(&crash, &plan.conf, &expect, true);
            out.evaluations += 1;
            out.class_counter(&format!("phase:{}", phase));
            if !power || cut_any {
                out.class(format!("{:016x}-{}-{:?}", h, b.acked, b.inflight.map(|x| x as i64)));
            }
            if power {
                out.count(if cut_any { "states_with_unsynced_suffix_lost" } else { "states_without_loss" }, 1);
            }
            if let Err(f) = res {
                out.count("violations_seen", 0);
                if out.violations.iter().filter(|v| v.sig == f.sig).count() >= 3 || out.violations.len() >= 50 {
                    // enough witnesses of this kind are kept already
                    out.count("violations_seen", 1);
                    continue;
                }
                // rebuild the pristine state for the witness
                let _ = std::fs::remove_dir_all(&crash);
                std::fs::create_dir_all(&crash).unwrap();
                match &cuts {
                    None => model.materialise(&crash, None),
                    Some(c) => {
                        let g = |n: &str, f: &FileObj| c.get(n).cloned().unwrap_or(f.bytes.len());
                        model.materialise(&crash, Some(&g));
                    }
                }
                let mut detail = save_witness(ctx, case, pi, &vname.replace('.', "_"), &crash, &plan.conf, &expect);
                detail["phase"] = json!(phase);
                detail["last_call"] = json!(last.map(|e| e.brief()));
                detail["acknowledged_ops"] = json!(b.acked);
                detail["in_flight"] = json!(b.inflight.map(|i| if i == usize::MAX { "initial open".to_string() } else { plan.ops[i].brief() }));
                detail["listing"] = json!(model.listing());
                detail["plan"] = plan_json(&plan);
                out.violation(&f.sig, format!("case {} crash point {} ({}, {}): {}", case, pi, phase, vname, f.desc), ctx.replay(case, detail));
            }
            if out.samples.len() < 3 && (pi % 37 == 5 || out.samples.is_empty()) {
                out.sample(json!({"case": case, "crash_point": pi, "variant": vname, "phase": phase, "last_call": last.map(|e| e.brief()), "acknowledged_ops": b.acked, "in_flight": b.inflight.map(|i| if i == usize::MAX { "initial open".to_string() } else { plan.ops[i].brief() }), "directory": model.listing(), "plan_head": plan.ops.iter().take(12).map(|o| o.brief()).collect::<Vec<_>>()}));
            }
        }
    }
    let _ = std::fs::remove_dir_all(&crash);
    let _ = hex(&[]);
}

fn worker(ctx: &Ctx, out: &mut Out) {
    // replay of a saved crash directory
    if let Some(d) = ctx.detail.get("crash_dir").and_then(|v| v.as_str()) {
        let work = ctx.scratch.join("replay-crash");
        crate::store::copy_dir(&PathBuf::from(d), &work, None);
        let conf = Conf::from_json(&ctx.detail["conf"]);
        let expect = expect_from_json(&ctx.detail["expect"]);
        out.evaluations += 1;
        if let Err(f) = check_crash_dir(&work, &conf, &expect, true) {
            out.violation(&f.sig, f.desc, json!({}));
        }
        return;
    }
    for case in ctx.cases(total_cases(&ctx.id, ctx.tier)) {
        ctx.checkpoint(out);
        ctx.breadcrumb(case, "recording");
        let r = std::panic::catch_unwind(std::panic::AssertUnwindSafe(|| episode(ctx, case, out)));
        if r.is_err() {
            out.inconclusive.push(format!("case {}: harness panicked: {}", case, crate::last_panic()));
        }
    }
}

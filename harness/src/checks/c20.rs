//! C20 - a failed disk operation is reported and leaves the store consistent.
//!
//! A single-threaded plan is run once without faults to count the fallible calls it makes on the
//! store directory (write, create, fsync, unlink). It is then rerun once per call index with that one
//! call failing (ENOSPC or EIO, transient: the next call works again).

use std::collections::HashMap;
use std::path::Path;
use std::time::Instant;

use serde_json::json;

use super::{ncpu, secs, standard_run, Check};
use crate::orch::{even_plans, show, CheckSpec, Ctx, Out, Tier};
use crate::plan::{exec_op, gen_plan, plan_json, OpRes, POp, Plan, PlanOpts, Runner};
use crate::rng::Rng;
use crate::shim::{self, *};
use crate::store::{fresh_dir, Store, SyncMode};

pub fn check() -> Check {
    Check {
        spec: CheckSpec {
            id: "C20",
            level: "fault_enumeration",
            rule: "one recorded plan = 8-40 generated ops (set/del/get with entries below and above the 8 KiB write buffer, merges, reopen cycles; sync=always in a third of the plans so that fsync calls exist). The plan is run once fault-free to count its fallible calls on the store directory, then rerun once per call index with exactly that write/create/fsync/unlink failing (ENOSPC or EIO). One evaluation = one rerun. Oracle: the operation in whose span the shim injected the failure must return an error; every other operation must succeed and agree with the map model (the faulted operation's key may read as before or after, also differently across a restart); a failed open must succeed when retried; after the plan the store is closed, reopened (must succeed), every key re-read, and a short continuation must work. In a quarter of the plans the positions also include the read side (opening a data or hint file for reading, mapping it), which the property's quantifier does not list but its statement covers. Exhaustive over call positions per plan; plans are sampled. Non-trivial/distinct = distinct (plan, position actually hit); the (operation, call kind, file kind) sites hit are listed as kinds.",
            assumptions: vec![
                "faults are injected by the shim at the libc boundary: the call returns -1/errno and has no effect",
                "in half of the plans the shim completes writes of two or more bytes only partly (a legal short count, seeded: 40% or 100% of such writes), so that std's write_all comes back with the rest; a fault position on such a retry is the no-space case in which a part of the entry has reached the file (sites named write-rest)",
                "merge copies in index iteration order, which differs between runs, so position i of a rerun may hit a different merge write than in the counting run; each rerun records the site it really hit",
            ],
            death_is_violation: true,
        },
        timing_dependent: false,
        run,
        worker,
    }
}

fn run(c: &Check, tier: Tier, seed: u64, t0: Instant) -> i32 {
    let n = ncpu() as u64;
    standard_run(c, tier, seed, t0, even_plans("", n, secs(tier.pick(900, 10_800))), n as usize, 50)
}

const FAULT_CLASSES: u32 = C_WRITE | C_CREATE | C_FSYNC | C_UNLINK;

struct Verdict {
    sig: String,
    desc: String,
}

fn op_kind(op: &POp) -> &'static str {
    match op {
        POp::Set { v, .. } => {
            if v.len() > 8000 {
                "set-large"
            } else {
                "set"
            }
        }
        POp::Del { .. } => "del",
        POp::Get { .. } => "get",
        POp::Merge => "merge",
        POp::Reopen(_) => "reopen",
    }
}

/// Run `plan` with the `nth` fallible call failing. Returns the site hit (None if the fault never
/// fired) and the first violation.
fn run_with_fault(dir: &Path, plan: &Plan, nth: i64, errno: i32, short: (u32, u64), classes: u32) -> (Option<String>, Option<Verdict>, u64) {
    shim::log_reset();
    shim::short_writes(short.0, short.1);
    shim::record_data(false);
    shim::watch(Some(dir));
    if nth >= 0 {
        shim::fail(classes, F_ANY, nth, errno);
    } else {
        shim::fail_off();
    }
    let mut run = Runner { st: None, conf: plan.conf.clone() };
    // key -> values it may currently read as
    let mut model: HashMap<Vec<u8>, Vec<Option<Vec<u8>>>> = HashMap::new();
    let allowed = |m: &HashMap<Vec<u8>, Vec<Option<Vec<u8>>>>, k: &[u8]| -> Vec<Option<Vec<u8>>> { m.get(k).cloned().unwrap_or_else(|| vec![None]) };
    let mut verdict: Option<Verdict> = None;
    let mut site: Option<String> = None;
    let mut faulted_op_kind = String::new();
    let v = |verdict: &mut Option<Verdict>, sig: &str, desc: String| {
        if verdict.is_none() {
            *verdict = Some(Verdict { sig: sig.to_string(), desc });
        }
    };

    // initial open
    let hit0 = shim::fail_hit();
    let mut opened = match Store::open(dir, &plan.conf) {
        Ok(s) => {
            run.st = Some(s);
            true
        }
        Err(_) => false,
    };
    let hit1 = shim::fail_hit();
    if hit0.is_none() && hit1.is_some() {
        faulted_op_kind = "open".into();
        if opened {
            v(&mut verdict, "fault-not-reported", "a file-system call failed during open, yet open returned Ok".into());
        }
    }
    if !opened {
        if hit1.is_none() {
            v(&mut verdict, "error-without-fault", "open failed although no fault was injected".into());
        }
        match Store::open(dir, &plan.conf) {
            Ok(s) => {
                run.st = Some(s);
                opened = true;
            }
            Err(e) => v(&mut verdict, "open-keeps-failing", format!("open failed again after the transient fault was over: {}", e)),
        }
    }
    let mut ops_done = 0u64;
    if opened {
        for (i, op) in plan.ops.iter().enumerate() {
            if verdict.is_some() {
                break;
            }
            let before = shim::fail_hit();
            shim::mark(M_OP_BEGIN, i as u64, 0);
            let res = exec_op(&mut run, dir, &plan.keys, op);
            shim::mark(M_OP_END, i as u64, 0);
            let after = shim::fail_hit();
            ops_done += 1;
            if std::env::var_os("BCVERIF_VERBOSE").is_some() {
                eprintln!("op {} {} -> {}{}", i, op.brief(), res.brief(), if before.is_none() && after.is_some() { "   <== FAULT" } else { "" });
            }
            let faulted = before.is_none() && after.is_some();
            let kind = op_kind(op);
            if let OpRes::Panic(m) = &res {
                v(&mut verdict, &format!("panic:{}", crate::panic_site(m)), format!("op {} ({}) panicked: {}", i, op.brief(), m));
                break;
            }
            if faulted {
                faulted_op_kind = kind.to_string();
                if !res.is_err() {
                    v(&mut verdict, "fault-not-reported", format!("a file-system call failed during op {} ({}), yet the operation returned {}", i, op.brief(), res.brief()));
                }
                // the failed operation may or may not have taken effect
                match op {
                    POp::Set { k, v: val } => {
                        let key = &plan.keys[*k];
                        let mut a = allowed(&model, key);
                        let nv = Some(val.clone());
                        if !a.contains(&nv) {
                            a.push(nv);
                        }
                        model.insert(key.clone(), a);
                    }
                    POp::Del { k } => {
                        let key = &plan.keys[*k];
                        let mut a = allowed(&model, key);
                        if !a.contains(&None) {
                            a.push(None);
                        }
                        model.insert(key.clone(), a);
                    }
                    POp::Reopen(c) => {
                        if run.st.is_none() {
                            // the failed open must work when retried
                            match Store::open(dir, c) {
                                Ok(s) => run.st = Some(s),
                                Err(e) => {
                                    v(&mut verdict, "open-keeps-failing", format!("reopen (op {}) failed again after the transient fault was over: {}", i, e));
                                    break;
                                }
                            }
                        }
                    }
                    _ => {}
                }
                continue;
            }
            // not the faulted operation: must succeed and agree with the model
            match (&res, op) {
                (OpRes::Err(e), _) => {
                    let sig = if after.is_some() { "later-operation-fails" } else { "error-without-fault" };
                    v(&mut verdict, sig, format!("op {} ({}) returned an error ({}) although the injected fault hit {}", i, op.brief(), e, if after.is_some() { "an earlier operation" } else { "nothing yet" }));
                }
                (OpRes::Unit, POp::Set { k, v: val }) => {
                    model.insert(plan.keys[*k].clone(), vec![Some(val.clone())]);
                }
                (OpRes::Bool(b), POp::Del { k }) => {
                    let key = &plan.keys[*k];
                    let a = allowed(&model, key);
                    let could_be_present = a.iter().any(|x| x.is_some());
                    let could_be_absent = a.iter().any(|x| x.is_none());
                    if (*b && !could_be_present) || (!*b && !could_be_absent) {
                        v(&mut verdict, "del-wrong-result", format!("op {}: del({}) returned {} but the key was {}", i, show(key), b, if could_be_present { "present" } else { "absent" }));
                    }
                    model.insert(key.clone(), vec![None]);
                }
                (OpRes::Val(g), POp::Get { k }) => {
                    let key = &plan.keys[*k];
                    let a = allowed(&model, key);
                    if !a.contains(g) {
                        v(&mut verdict, if after.is_some() { "wrong-read-after-fault" } else { "wrong-read" }, format!("op {}: get({}) returned {} which is not what the model allows ({} candidates)", i, show(key), res.brief(), a.len()));
                    }
                }
                _ => {}
            }
        }
    }
    // the fault window is the plan itself: what follows is the oracle's own reading
    shim::fail_off();
    shim::short_writes(0, 0);
    shim::mark(M_NOTE, 1, 0);
    // read everything in the running process, then after a restart, then prove it is usable
    let read_all = |st: &Store, model: &HashMap<Vec<u8>, Vec<Option<Vec<u8>>>>, when: &str, verdict: &mut Option<Verdict>| {
        for key in &plan.keys {
            if verdict.is_some() {
                return;
            }
            let a = model.get(key).cloned().unwrap_or_else(|| vec![None]);
            let r = std::panic::catch_unwind(std::panic::AssertUnwindSafe(|| st.get(key)));
            match r {
                Err(_) => {
                    let m = crate::last_panic();
                    *verdict = Some(Verdict { sig: format!("panic:{}", crate::panic_site(&m)), desc: format!("{}: get({}) panicked: {}", when, show(key), m) });
                }
                Ok(Err(e)) => *verdict = Some(Verdict { sig: "get-error-after-fault".into(), desc: format!("{}: get({}) returned {:?}", when, show(key), e) }),
                Ok(Ok(g)) => {
                    if !a.contains(&g) {
                        let sig = match (&g, a.iter().any(|x| x.is_some())) {
                            (None, true) => "acknowledged-write-lost",
                            (Some(_), false) => "deleted-key-back",
                            _ => "wrong-value",
                        };
                        *verdict = Some(Verdict {
                            sig: sig.into(),
                            desc: format!("{}: key {} reads {} but the model allows {}", when, show(key), g.as_ref().map(|v| format!("{}B", v.len())).unwrap_or("nothing".into()), a.iter().map(|x| x.as_ref().map(|v| format!("{}B", v.len())).unwrap_or("nothing".into())).collect::<Vec<_>>().join(" or ")),
                        });
                    }
                }
            }
        }
    };
    if verdict.is_none() && opened {
        if let Some(st) = &run.st {
            read_all(st, &model, "in the running process after the plan", &mut verdict);
        }
    }
    if let Some(mut s) = run.st.take() {
        s.close();
        drop(s);
    }
    crate::store::wait_background_threads(0, 5000);
    if verdict.is_none() && opened {
        let r = std::panic::catch_unwind(std::panic::AssertUnwindSafe(|| Store::open(dir, &plan.conf)));
        match r {
            Err(_) => {
                let m = crate::last_panic();
                verdict = Some(Verdict { sig: format!("panic:{}", crate::panic_site(&m)), desc: format!("open after the run panicked: {}", m) });
            }
            Ok(Err(e)) => verdict = Some(Verdict { sig: "directory-cannot-be-opened".into(), desc: format!("the directory cannot be opened after the run: {}", e) }),
            Ok(Ok(mut st)) => {
                read_all(&st, &model, "after restart", &mut verdict);
                if verdict.is_none() {
                    // usable: one more write of every kind
                    let k = b"\x02continuation".to_vec();
                    let ok = st.set(&k, b"x").is_ok() && st.get(&k).ok().flatten().as_deref() == Some(b"x") && st.del(&k).ok() == Some(true) && st.merge().is_ok();
                    if !ok {
                        verdict = Some(Verdict { sig: "store-unusable-after-restart".into(), desc: "set/get/del/merge on the restarted store did not all succeed".into() });
                    } else {
                        read_all(&st, &model, "after restart and one more merge", &mut verdict);
                    }
                }
                st.close();
            }
        }
        crate::store::wait_background_threads(0, 5000);
    }
    shim::fail_off();
    let events = shim::take_log(dir, true);
    shim::watch(None);
    if std::env::var_os("BCVERIF_VERBOSE").is_some() {
        for e in &events {
            if e.kind != K_CLOSE && e.kind != K_MMAP {
                eprintln!("   {}", e.brief());
            }
        }
    }
    if let Some(ix) = events.iter().position(|e| e.injected()) {
        let inj = &events[ix];
        // a write that fails right after a short write to the same file is the retry for the rest of
        // one buffer: a part of the entry is in the file already
        let after_short = matches!(inj.kind, K_WRITE | K_PWRITE)
            && events[..ix].iter().rev().take_while(|e| !e.is_mark(M_OP_BEGIN)).find(|e| matches!(e.kind, K_WRITE | K_PWRITE) && e.name == inj.name).map(|e| e.result >= 0 && (e.result as u64) < e.b).unwrap_or(false);
        let call = match inj.kind {
            K_OPEN if inj.a & libc::O_CREAT as u64 == 0 => "open",
            K_MMAP => "mmap",
            K_OPEN => "create",
            K_WRITE | K_PWRITE if after_short => "write-rest",
            K_WRITE | K_PWRITE => "write",
            K_FSYNC | K_FDATASYNC => "fsync",
            K_UNLINK => "unlink",
            _ => "other",
        };
        let fk = if inj.name.ends_with(".hint") { "hint" } else { "data" };
        site = Some(format!("{}/{}-{}", if faulted_op_kind.is_empty() { "after-plan" } else { &faulted_op_kind }, call, fk));
    }
    let plan_end = events.iter().position(|e| e.is_mark(M_NOTE)).unwrap_or(events.len());
    let calls = events[..plan_end].iter().filter(|e| !e.is_mark(M_OP_BEGIN) && !e.is_mark(M_OP_END) && (matches!(e.kind, K_OPEN | K_WRITE | K_PWRITE | K_FSYNC | K_FDATASYNC | K_UNLINK) || (e.kind == K_MMAP && classes & C_MMAP != 0)) && (e.kind != K_OPEN || e.a & libc::O_CREAT as u64 != 0 || classes & C_OPENRD != 0)).count() as u64;
    let _ = ops_done;
    (site, verdict, calls)
}

fn plan_case(ctx: &Ctx, case: u64, out: &mut Out) {
    let mut r = Rng::derive(ctx.seed, 0xC20_0000_0000 ^ case);
    let opts = PlanOpts {
        min_ops: 8,
        max_ops: ctx.tier.pick(32, 48),
        sync: if r.chance(1, 3) { SyncMode::Always } else { SyncMode::None },
        merge_pct: *r.pick(&[5u64, 10, 15]),
        reopen_pct: *r.pick(&[0u64, 5]),
        big_ok: true,
        huge_values: false,
    };
    let plan = gen_plan(&mut r, &opts);
    let dir = fresh_dir(&ctx.scratch, &format!("c{}", case));
    // counting run
    ctx.breadcrumb(case, "counting run");
    // a quarter of the plans each: writes are sometimes / always completed partially first
    let short = (match case % 4 { 1 => 400_000, 3 => 1_000_000, _ => 0 }, Rng::derive(ctx.seed, 0xC20_5000_0000 ^ case).next_u64() | 1);
    // a quarter of the plans also fails the read side: opening a file for reading and mapping it
    // (beyond the property's quantifier, inside its statement)
    let classes = if case % 4 == 2 { FAULT_CLASSES | C_OPENRD | C_MMAP } else { FAULT_CLASSES };
    if case % 4 == 2 {
        out.count("plans_with_read_side_faults", 1);
    }
    let shorts0 = shim::shorts_done();
    let (_, v0, calls) = run_with_fault(&dir, &plan, -1, 0, short, classes);
    if short.0 > 0 {
        out.count("plans_with_short_writes", 1);
        out.count("short_writes_in_counting_runs", shim::shorts_done() - shorts0);
    }
    out.count("plans", 1);
    if v0.is_some() {
        // failing without any fault is not this property's subject
        out.count("plans_skipped_fail_without_fault", 1);
        let _ = std::fs::remove_dir_all(&dir);
        return;
    }
    out.count("fallible_calls_counted", calls);
    let ph = crate::orch::fnv(format!("{:?}", plan_json(&plan)).as_bytes());
    for nth in 0..calls as i64 {
        if let Some(only) = ctx.detail.get("fault_position").and_then(|v| v.as_i64()) {
            if nth != only {
                continue;
            }
        }
        let errno = if r.chance(1, 2) { libc::ENOSPC } else { libc::EIO };
        let _ = std::fs::remove_dir_all(&dir);
        std::fs::create_dir_all(&dir).unwrap();
        ctx.breadcrumb(case, &format!("fault position {}", nth));
        let (site, verdict, _) = run_with_fault(&dir, &plan, nth, errno, short, classes);
        out.evaluations += 1;
        match &site {
            Some(s) => {
                out.class_counter(&format!("site:{}", s));
                out.class(format!("{:016x}-{}", ph, nth));
                if s.contains("write-rest") {
                    out.count("faults_after_a_part_of_the_entry_was_written", 1);
                }
                if s.starts_with("set-large") {
                    out.count("faults_on_entries_above_write_buffer", 1);
                }
            }
            None => out.count("reruns_where_fault_never_fired", 1),
        }
        if let Some(v) = verdict {
            let s = site.clone().unwrap_or("none".into());
            out.violation(
                &format!("{}|{}", v.sig, s),
                format!("case {} fault position {} ({} at {}): {}", case, nth, if errno == libc::ENOSPC { "ENOSPC" } else { "EIO" }, s, v.desc),
                ctx.replay(case, json!({"fault_position": nth, "errno": errno, "site": s, "short_writes_ppm": short.0, "read_side": classes & C_OPENRD != 0, "plan": plan_json(&plan)})),
            );
        }
        if out.samples.len() < 3 && (nth % 41 == 7 || out.samples.is_empty()) {
            out.sample(json!({"case": case, "fault_position": nth, "site": site, "errno": errno, "plan_head": plan.ops.iter().take(14).map(|o| o.brief()).collect::<Vec<_>>(), "config": plan.conf.brief()}));
        }
    }
    let _ = std::fs::remove_dir_all(&dir);
}

fn worker(ctx: &Ctx, out: &mut Out) {
    for case in ctx.cases(ctx.tier.pick(1500, 30_000)) {
        ctx.checkpoint(out);
        let r = std::panic::catch_unwind(std::panic::AssertUnwindSafe(|| plan_case(ctx, case, out)));
        if r.is_err() {
            out.inconclusive.push(format!("case {}: harness panicked: {}", case, crate::last_panic()));
        }
    }
}

//! C14 - data files are append-only and immutable, with ids that only grow.
//!
//! A rule monitor over the shim's call log, applied to recorded episodes and to chains
//! "episode -> kill at a random call boundary -> restart on what is left -> episode -> kill -> ...".

use std::collections::{BTreeMap, BTreeSet, HashMap};
use std::time::Instant;

use serde_json::json;

use super::{ncpu, secs, standard_run, Check};
use crate::dirmodel::{is_effect, DirModel};
use crate::orch::{even_plans, CheckSpec, Ctx, Out, Tier};
use crate::plan::{gen_plan, plan_json, run_recorded, POp, Plan, PlanOpts};
use crate::rng::Rng;
use crate::scan;
use crate::shim::*;
use crate::store::{fresh_dir, parse_name, SyncMode};

pub fn check() -> Check {
    Check {
        spec: CheckSpec {
            id: "C14",
            level: "exploration",
            rule: "one case = a chain of 1-4 recorded episodes on one directory (each a generated plan of set/del/get, merges, reopen cycles; in a quarter of the chains one create/write/fsync/unlink per episode fails with ENOSPC or EIO, in another quarter some writes are completed only partly; between episodes the process is 'killed' at a random call boundary and the next episode starts on exactly what the log prefix left behind). Every logged call on the store directory is run through the rule monitor: R1 store files are opened for writing only with O_CREAT|O_EXCL, never O_TRUNC; R2 every write lands at the current end of file (O_APPEND or offset == size) and no writable shared mapping exists; R3 no truncate/rename/link on store files; R4 writes only through the descriptor (or a dup) of the creating open; R5 each created data file has an id above every data-file id the directory has ever held across the whole chain, a hint file's id is that of a data file created in the same merge pass; R6 (on the real files after each episode) the last record of every data file starts at or before the max_file_size in force when the file was created. Non-trivial = a chain with at least one merge that removed files and one restart; distinct = by hash of the call-kind sequence.",
            assumptions: vec![
                "the shim sees every call that changes the directory (fidelity self-check after each episode; mismatch = inconclusive)",
                "a raw syscall() would bypass the shim; the fidelity check turns that into an inconclusive run rather than a silent pass",
            ],
            death_is_violation: true,
        },
        timing_dependent: false,
        run,
        worker,
    }
}

fn run(c: &Check, tier: Tier, seed: u64, t0: Instant) -> i32 {
    let n = ncpu() as u64;
    standard_run(c, tier, seed, t0, even_plans("", n, secs(tier.pick(900, 10_800))), n as usize, 20)
}

struct Monitor {
    /// highest data-file id the directory has ever held in this chain
    ever_max: Option<u64>,
    ever_max_hint: Option<u64>,
    /// fd -> (name, created by this open, flags)
    fds: HashMap<i32, (String, bool, u64)>,
    /// data ids created inside the currently open merge span
    merge_created: BTreeSet<u64>,
    violations: Vec<(String, String)>,
    calls_by_kind: BTreeMap<&'static str, u64>,
    files_created: u64,
}

const O_ACCMODE: u64 = 3;

impl Monitor {
    fn new() -> Self {
        Monitor { ever_max: None, ever_max_hint: None, fds: HashMap::new(), merge_created: BTreeSet::new(), violations: Vec::new(), calls_by_kind: BTreeMap::new(), files_created: 0 }
    }
    fn note_existing(&mut self, names: &[String]) {
        for n in names {
            match parse_name(n) {
                Some((id, true)) => self.ever_max = Some(self.ever_max.map_or(id, |m| m.max(id))),
                Some((id, false)) => self.ever_max_hint = Some(self.ever_max_hint.map_or(id, |m| m.max(id))),
                None => {}
            }
        }
    }
    fn v(&mut self, rule: &str, what: String) {
        if self.violations.len() < 20 {
            self.violations.push((rule.to_string(), what));
        }
    }
    /// `model` is the directory model *before* this event is applied.
    fn observe(&mut self, ev: &Ev, model: &DirModel, in_merge: bool) {
        if ev.kind == K_MARK {
            return;
        }
        *self.calls_by_kind.entry(ev.kind_name()).or_insert(0) += 1;
        let store_file = parse_name(&ev.name);
        match ev.kind {
            K_OPEN => {
                if ev.result < 0 || ev.injected() {
                    return;
                }
                let flags = ev.a;
                let writable = flags & O_ACCMODE != 0;
                let creat = flags & libc::O_CREAT as u64 != 0;
                let excl = flags & libc::O_EXCL as u64 != 0;
                let existed = model.names.contains_key(&ev.name);
                self.fds.insert(ev.fd, (ev.name.clone(), creat && !existed, flags));
                if store_file.is_none() {
                    if creat && !existed {
                        self.v("R5-foreign-file", format!("a file that is neither N.bitcask.data nor N.bitcask.hint was created in the store directory: {}", ev.name));
                    }
                    return;
                }
                if flags & libc::O_TRUNC as u64 != 0 {
                    self.v("R1-R3-open-trunc", format!("{} opened with O_TRUNC (flags {:#o})", ev.name, flags));
                }
                if writable && !(creat && excl) {
                    self.v("R1-reopened-for-writing", format!("{} opened for writing without O_CREAT|O_EXCL (flags {:#o}){}", ev.name, flags, if existed { "; the file already existed" } else { "" }));
                }
                if writable && existed {
                    self.v("R1-existing-file-opened-for-writing", format!("existing file {} opened for writing (flags {:#o})", ev.name, flags));
                }
                if creat && !existed {
                    self.files_created += 1;
                    match store_file {
                        Some((id, true)) => {
                            if let Some(m) = self.ever_max {
                                if id <= m {
                                    self.v("R5-data-id-not-above-all-earlier", format!("data file {} created although the directory has already held data file id {}", ev.name, m));
                                }
                            }
                            self.ever_max = Some(self.ever_max.map_or(id, |m| m.max(id)));
                            if in_merge {
                                self.merge_created.insert(id);
                            }
                        }
                        Some((id, false)) => {
                            if !in_merge || !self.merge_created.contains(&id) {
                                self.v("R5-hint-without-its-data-file", format!("hint file {} created, but no data file with id {} was created in the same merge pass", ev.name, id));
                            }
                            if let Some(m) = self.ever_max_hint {
                                if id <= m {
                                    self.v("R5-hint-id-not-above-all-earlier", format!("hint file {} created although hint id {} existed before", ev.name, m));
                                }
                            }
                            self.ever_max_hint = Some(self.ever_max_hint.map_or(id, |m| m.max(id)));
                        }
                        None => {}
                    }
                }
            }
            K_WRITE | K_PWRITE => {
                if ev.result <= 0 || store_file.is_none() {
                    return;
                }
                let size = model.file(&ev.name).map(|f| f.bytes.len() as u64);
                match self.fds.get(&ev.fd).cloned() {
                    Some((_, created, flags)) => {
                        if !created {
                            self.v("R4-write-through-non-creating-descriptor", format!("write of {} bytes to {} through a descriptor that did not create the file", ev.result, ev.name));
                        }
                        let append = flags & libc::O_APPEND as u64 != 0;
                        if ev.kind == K_PWRITE {
                            if Some(ev.a) != size {
                                self.v("R2-write-not-at-end", format!("pwrite to {} at offset {} while the file is {:?} bytes long", ev.name, ev.a, size));
                            }
                        } else if !append {
                            self.v("R2-write-without-append", format!("write to {} through a descriptor opened without O_APPEND", ev.name));
                        }
                    }
                    None => self.v("R4-write-through-unknown-descriptor", format!("write to {} through a descriptor the monitor never saw opened", ev.name)),
                }
                if !model.names.contains_key(&ev.name) {
                    self.v("R2-write-to-removed-file", format!("write of {} bytes to {} after it was unlinked", ev.result, ev.name));
                }
            }
            K_FTRUNCATE | K_TRUNCATE | K_FALLOCATE => {
                if ev.result == 0 && store_file.is_some() {
                    self.v("R3-truncate", format!("{} on {}", ev.kind_name(), ev.name));
                }
            }
            K_RENAME | K_LINK => {
                if ev.result == 0 {
                    self.v("R3-rename-or-link", format!("{} {} -> {}", ev.kind_name(), ev.name, String::from_utf8_lossy(&ev.data)));
                }
            }
            K_MMAP => {
                if ev.flags & RF_MUTATING != 0 && store_file.is_some() {
                    self.v("R2-writable-mapping", format!("writable shared mapping of {}", ev.name));
                }
            }
            K_DUP => {
                if let Some(x) = self.fds.get(&(ev.a as i32)).cloned() {
                    self.fds.insert(ev.fd, x);
                }
            }
            K_CLOSE => {
                self.fds.remove(&ev.fd);
            }
            K_UNSUPPORTED => self.v("R2-unmodelled-call", format!("fd-to-fd copy call on {}", ev.name)),
            _ => {}
        }
    }
}

fn chain(ctx: &Ctx, case: u64, out: &mut Out) {
    let mut r = Rng::derive(ctx.seed, 0xC14_0000_0000 ^ case);
    let links = r.range(1, 4);
    let dir = fresh_dir(&ctx.scratch, &format!("c{}", case));
    let mut mon = Monitor::new();
    let mut kinds_seq = String::new();
    let mut merges_removing = 0u64;
    let mut restarts = 0u64;
    let mut plans = Vec::new();
    // the calls of the whole chain are kept (data bytes dropped); on a violation their tail goes into
    // the witness: merges copy in an order that differs from process to process, so a replay may
    // take another path
    let mut kept: Vec<(u64, Vec<String>, Vec<Ev>, Option<usize>)> = Vec::new(); // link, op briefs, events, kill cut
    for link in 0..links {
        let opts = PlanOpts {
            min_ops: 10,
            max_ops: ctx.tier.pick(50, 90),
            sync: if r.chance(1, 4) { SyncMode::Always } else { SyncMode::None },
            merge_pct: *r.pick(&[5u64, 10, 15]),
            reopen_pct: *r.pick(&[3u64, 8]),
            big_ok: true,
            huge_values: false,
        };
        let plan: Plan = gen_plan(&mut r, &opts);
        plans.push(plan_json(&plan));
        let start_model = DirModel::from_dir(&dir);
        mon.note_existing(&start_model.names.keys().cloned().collect::<Vec<_>>());
        let ever_before = (mon.ever_max, mon.ever_max_hint);
        ctx.breadcrumb(case, &format!("link {}", link));
        // a quarter of the chains on a file system that completes some writes only partly
        if case % 4 == 3 {
            crate::shim::short_writes(400_000, Rng::derive(ctx.seed, 0xC14_5000_0000 ^ case ^ ((link as u64) << 32)).next_u64() | 1);
            out.count("episodes_with_short_writes", 1);
        }
        // another quarter: one file-system call of the episode fails (ENOSPC/EIO on a create, write,
        // fsync or unlink). The file discipline is not allowed to slip after a failed operation
        // either (a rollover that could not create its file, a merge given up half-way)
        let fault_at = if case % 4 == 1 { Some((r.below(plan.ops.len() as u64) as usize, r.below(4) as i64, if r.chance(1, 2) { libc::ENOSPC } else { libc::EIO })) } else { None };
        let rec = run_recorded(&dir, &plan, true, |i| {
            if let Some((at, nth, errno)) = fault_at {
                if i == at {
                    crate::shim::fail(C_CREATE | C_WRITE | C_FSYNC | C_UNLINK, F_ANY, nth, errno);
                }
            }
        });
        if fault_at.is_some() {
            if crate::shim::fail_hit().is_some() {
                out.count("episodes_with_one_failed_call", 1);
            }
            crate::shim::fail_off();
        }
        crate::shim::short_writes(0, 0);
        out.count("episodes_recorded", 1);
        // monitor + model in lock step
        let mut model = start_model.clone();
        let mut inflight: Option<u64> = None;
        let mut conf_now = plan.conf.clone();
        let mut created_under: HashMap<u64, u64> = HashMap::new(); // data id -> max_file_size in force
        for ev in &rec.events {
            if ev.is_mark(M_OP_BEGIN) {
                inflight = Some(ev.a);
                mon.merge_created.clear();
                if ev.a != u64::MAX {
                    if let POp::Reopen(c) = &plan.ops[ev.a as usize] {
                        conf_now = c.clone();
                    }
                }
            } else if ev.is_mark(M_OP_END) {
                inflight = None;
            }
            let in_merge = matches!(inflight, Some(i) if i != u64::MAX && matches!(plan.ops[i as usize], POp::Merge));
            let before_unlinks = model.names.len();
            mon.observe(ev, &model, in_merge);
            if ev.kind == K_OPEN && ev.result >= 0 && ev.a & libc::O_CREAT as u64 != 0 {
                if let Some((id, true)) = parse_name(&ev.name) {
                    created_under.entry(id).or_insert(conf_now.max_file_size);
                }
            }
            model.apply(ev);
            if ev.kind == K_UNLINK && ev.result == 0 && in_merge && model.names.len() < before_unlinks {
                merges_removing += 1;
            }
            if ev.kind != K_MARK {
                kinds_seq.push((b'a' + (ev.kind as u8 % 26)) as char);
            }
        }
        out.count("calls_examined", rec.events.iter().filter(|e| e.kind != K_MARK).count() as u64);
        if !model.problems.is_empty() && mon.violations.is_empty() {
            out.inconclusive.push(format!("case {}: call log holds something the model cannot represent: {}", case, model.problems[0]));
            break;
        }
        if let Some(d) = model.diff_with(&dir) {
            if mon.violations.is_empty() {
                out.inconclusive.push(format!("case {}: the call log does not explain the directory: {}", case, d));
                break;
            }
        }
        // R6 on the real files
        for (id, f) in scan::scan_dir(&dir) {
            if let Some(mfs) = created_under.get(&id) {
                let last_start = match f.tail {
                    scan::Tail::Clean => f.recs.last().map(|r| r.pos),
                    scan::Tail::Torn(p) | scan::Tail::Bad(p) => Some(p),
                };
                if let Some(p) = last_start {
                    if p > *mfs {
                        mon.v("R6-file-grew-past-max-by-more-than-one-entry", format!("data file {} ({} bytes): its last record starts at {}, beyond max_file_size {}", id, f.size, p, mfs));
                    }
                }
                out.count("files_size_checked", 1);
            }
        }
        kept.push((link, plan.ops.iter().map(|o| o.brief()).collect(), rec.events.iter().map(|e| { let mut e = e.clone(); e.data = Vec::new(); e }).collect(), None));
        if !mon.violations.is_empty() {
            break;
        }
        if link + 1 == links {
            break;
        }
        // kill at a random call boundary of this episode and restart on what is left
        let pts: Vec<usize> = rec.events.iter().enumerate().filter(|(_, e)| is_effect(e)).map(|(i, _)| i).collect();
        if pts.is_empty() {
            break;
        }
        let cut = *r.pick(&pts);
        if let Some(k) = kept.last_mut() {
            k.3 = Some(cut);
        }
        let mut m2 = start_model.clone();
        for ev in &rec.events[..=cut] {
            m2.apply(ev);
        }
        let _ = std::fs::remove_dir_all(&dir);
        std::fs::create_dir_all(&dir).unwrap();
        m2.materialise(&dir, None);
        mon.fds.clear();
        // in the killed timeline only the files created before the cut ever existed
        mon.ever_max = ever_before.0;
        mon.ever_max_hint = ever_before.1;
        for ev in &rec.events[..=cut] {
            if ev.kind == K_OPEN && ev.result >= 0 && ev.a & libc::O_CREAT as u64 != 0 {
                mon.note_existing(&[ev.name.clone()]);
            }
        }
        restarts += 1;
        out.count("crash_directories_continued", 1);
    }
    out.evaluations += 1;
    out.count("files_created", mon.files_created);
    out.max("highest_file_id", mon.ever_max.unwrap_or(0));
    for (k, n) in &mon.calls_by_kind {
        out.count(&format!("calls_{}", k), *n);
    }
    if merges_removing > 0 && restarts > 0 {
        out.class(format!("{:016x}", crate::orch::fnv(kinds_seq.as_bytes())));
    }
    out.count("merge_unlinks", merges_removing);
    if out.samples.len() < 2 {
        out.sample(json!({"case": case, "links": links, "first_plan": plans.first(), "calls_by_kind": mon.calls_by_kind, "highest_id": mon.ever_max}));
    }
    for (rule, what) in &mon.violations {
        let mut trace: Vec<String> = Vec::new();
        for (link, ops, evs, cut) in &kept {
            for (i, ev) in evs.iter().enumerate() {
                if ev.kind != K_CLOSE && ev.kind != K_MMAP && !(ev.kind == K_OPEN && ev.a & (libc::O_CREAT as u64 | O_ACCMODE) == 0) {
                    if ev.is_mark(M_OP_BEGIN) && ev.a != u64::MAX {
                        trace.push(format!("link {} op {} {}", link, ev.a, ops.get(ev.a as usize).cloned().unwrap_or_default()));
                    } else if !ev.is_mark(M_OP_END) && !ev.is_mark(M_OP_BEGIN) {
                        trace.push(format!("     {}", ev.brief()));
                    }
                }
                if *cut == Some(i) {
                    trace.push(format!("--- the next link starts on the directory as it was here (kill after call {} of link {}) ---", i, link));
                }
            }
            trace.push(format!("--- end of link {} ---", link));
        }
        let tail: Vec<&String> = trace.iter().rev().take(600).collect::<Vec<_>>().into_iter().rev().collect();
        out.violation(rule, format!("case {}: {}", case, what), ctx.replay(case, json!({"plans": plans, "trace_tail": tail})));
    }
    let _ = std::fs::remove_dir_all(&dir);
}

fn worker(ctx: &Ctx, out: &mut Out) {
    for case in ctx.cases(ctx.tier.pick(15_000, 300_000)) {
        ctx.checkpoint(out);
        let r = std::panic::catch_unwind(std::panic::AssertUnwindSafe(|| chain(ctx, case, out)));
        if r.is_err() {
            out.inconclusive.push(format!("case {}: harness panicked: {}", case, crate::last_panic()));
        }
    }
}

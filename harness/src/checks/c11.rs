//! C11 - concurrent clients see one linearizable store.

use std::io::Write;
use std::sync::atomic::{AtomicBool, AtomicU64, Ordering};
use std::sync::{Arc, Mutex};
use std::time::{Duration, Instant};

use serde_json::json;

use super::c04::{id_of, value_for};
use super::{ncpu, secs, standard_run, Check};
use crate::linz::{self, Kind, Op, Verdict};
use crate::netcli::{connect, ReadErr, Rx, Server};
use crate::orch::{even_plans, show, CheckSpec, Ctx, Out, Tier};
use crate::resp::{command, RFrame};
use crate::rng::Rng;
use crate::shim;
use crate::store::{fresh_dir, Conf, Policy};

pub fn check() -> Check {
    Check {
        spec: CheckSpec {
            id: "C11",
            level: "exploration",
            rule: "one case = one episode: 2-12 client threads, each on its own TCP connection to a child process running the real Server over a real store with a small max_file_size and a 5-20 ms background merge timer (so the timer-driven merge path runs underneath), issue SET / GET / single-key DEL on 2-6 shared keys with unique self-describing values, in barrier-separated segments; the shim delays data-file writes and reader opens inside the server. Recorded per command at the client: connection, command, stamp before sending, reply, stamp after the reply was received (one atomic counter). Oracle: per key and segment the Wing-Gong linearizability search of C04 (real-time order includes each connection's own order), seeded with the value read at the previous barrier through a separate connection; a command without a reply stays open (may take effect later) and is itself reported (no fault is injected). One evaluation = one checked (key, segment) history. Non-trivial/distinct = distinct overlap patterns among histories where a GET overlapped a SET/DEL of the same key from another connection.",
            assumptions: vec!["stamps are taken outside send/receive, which only widens intervals", "interleavings are sampled"],
            death_is_violation: false,
        },
        timing_dependent: true,
        run,
        worker,
    }
}

fn run(c: &Check, tier: Tier, seed: u64, t0: Instant) -> i32 {
    let n = (ncpu() as u64 / 2).max(2);
    standard_run(c, tier, seed, t0, even_plans("", n, secs(tier.pick(900, 10_800))), n as usize, 20)
}

static CLOCK: AtomicU64 = AtomicU64::new(1);
fn stamp() -> u64 {
    CLOCK.fetch_add(1, Ordering::SeqCst)
}

struct Shared {
    keys: Vec<Vec<u8>>,
    hist: Vec<Mutex<Vec<Op>>>,
    problems: Mutex<Vec<(String, String)>>,
    next_id: AtomicU64,
    go: AtomicU64,
    done: AtomicU64,
    stop: AtomicBool,
    ops_done: AtomicU64,
    /// read-side failures are injected into the server in this episode: a GET may then end with its
    /// connection closed instead of a reply (the client reconnects)
    faulty: bool,
    port: u16,
    gets_ended_by_a_failure: AtomicU64,
}

fn problem(sh: &Shared, sig: &str, desc: String) {
    let mut p = sh.problems.lock().unwrap();
    if p.len() < 10 {
        p.push((sig.to_string(), desc));
    }
}

struct Client {
    tx: std::net::TcpStream,
    rx: Rx,
    retired: bool,
}

fn request(c: &mut Client, bytes: &[u8]) -> Result<RFrame, ReadErr> {
    if c.tx.write_all(bytes).is_err() {
        return Err(ReadErr::Reset("write failed".into()));
    }
    c.rx.reply(Instant::now() + Duration::from_secs(20))
}

fn one_op(sh: &Shared, c: &mut Client, tid: u32, r: &mut Rng) {
    if c.retired {
        return;
    }
    let ki = r.usize_below(sh.keys.len());
    let key = &sh.keys[ki];
    let which = r.weighted(&[40, 45, 15]);
    let (bytes, id) = match which {
        0 => {
            let id = sh.next_id.fetch_add(1, Ordering::SeqCst);
            let size = match r.weighted(&[60, 25, 15]) {
                0 => r.range(12, 80) as usize,
                1 => r.range(81, 2000) as usize,
                _ => r.range(8200, 20_000) as usize,
            };
            (command(&[b"SET", key, &value_for(id, size)]), id)
        }
        1 => (command(&[b"GET", key]), 0),
        _ => (command(&[b"DEL", key]), 0),
    };
    let call = stamp();
    let res = request(c, &bytes);
    let ret = stamp();
    let pending_kind = match which {
        0 => Some(Kind::Set(id)),
        1 => None,
        _ => Some(Kind::DelUnknown),
    };
    match res {
        Ok(f) => {
            let kind = match (which, &f) {
                (0, RFrame::Simple(s)) if s == b"OK" => Some(Kind::Set(id)),
                (1, RFrame::Null) => Some(Kind::Get(None)),
                (1, RFrame::Bulk(v)) => match id_of(v) {
                    Some(i) => Some(Kind::Get(Some(i))),
                    None => {
                        problem(sh, "torn-or-foreign-value", format!("GET {} returned {} bytes that are not a value written in full: {}", show(key), v.len(), show(v)));
                        None
                    }
                },
                (2, RFrame::Int(0)) => Some(Kind::Del(false)),
                (2, RFrame::Int(1)) => Some(Kind::Del(true)),
                _ => {
                    problem(sh, "malformed-reply", format!("connection {}: unexpected reply {} to {}", tid, crate::resp::brief(&f), show(&bytes)));
                    None
                }
            };
            if let Some(k) = kind {
                sh.hist[ki].lock().unwrap().push(Op { thread: tid, kind: k, call, ret });
            }
        }
        Err(e) if sh.faulty && which == 1 && !matches!(e, ReadErr::Timeout) => {
            // the store could not read (injected failure of open/mmap): the server ends the connection
            // without a reply. A GET has no effect; go on with a fresh connection
            sh.gets_ended_by_a_failure.fetch_add(1, Ordering::Relaxed);
            match connect(sh.port).and_then(|s| s.try_clone().map(|t| (s, t))) {
                Ok((s, t)) => *c = Client { tx: t, rx: Rx::new(s), retired: false },
                Err(e) => {
                    problem(sh, "connect-failed", format!("connection {}: could not reconnect after a failed GET: {}", tid, e));
                    c.retired = true;
                }
            }
        }
        Err(e) if sh.faulty && !matches!(e, ReadErr::Timeout) => {
            // a SET or DEL whose write failed in the store (injected failure): the server ends the
            // connection without a reply. The command may or may not have taken effect: it stays
            // open in the history; go on with a fresh connection
            sh.gets_ended_by_a_failure.fetch_add(1, Ordering::Relaxed);
            if let Some(k) = pending_kind {
                sh.hist[ki].lock().unwrap().push(Op { thread: tid, kind: k, call, ret: linz::PENDING });
            }
            match connect(sh.port).and_then(|s| s.try_clone().map(|t| (s, t))) {
                Ok((s, t)) => *c = Client { tx: t, rx: Rx::new(s), retired: false },
                Err(e) => {
                    problem(sh, "connect-failed", format!("connection {}: could not reconnect after a failed command: {}", tid, e));
                    c.retired = true;
                }
            }
        }
        Err(e) => {
            // no reply: the command may still take effect later; keep it open and retire the connection
            let how = match e {
                ReadErr::Eof => "the server closed the connection",
                ReadErr::Reset(_) => "the connection was reset",
                ReadErr::Timeout => "no reply within 20 s",
            };
            problem(sh, if matches!(e, ReadErr::Timeout) { "no-reply" } else { "connection-closed" }, format!("connection {}: {} after {}", tid, how, show(&bytes)));
            if let Some(k) = pending_kind {
                sh.hist[ki].lock().unwrap().push(Op { thread: tid, kind: k, call, ret: linz::PENDING });
            }
            c.retired = true;
        }
    }
    sh.ops_done.fetch_add(1, Ordering::Relaxed);
}

fn episode(ctx: &Ctx, case: u64, out: &mut Out) {
    let mut r = Rng::derive(ctx.seed, 0xC11_0000_0000 ^ case);
    let nclients = r.range(2, 12) as usize;
    let nkeys = r.range(2, 6) as usize;
    let segments = r.range(ctx.tier.pick(10, 20), ctx.tier.pick(40, 100));
    let ops_per_seg = r.range(3, 8);
    let mut conf = Conf::default();
    conf.max_file_size = *r.pick(&[300u64, 1000, 4096, 30_000]);
    conf.conc = *r.pick(&[1usize, 2, 4]);
    conf.cache = *r.pick(&[0usize, 1, 256]);
    conf.policy = Policy::Always;
    conf.interval_ms = r.range(5, 20);
    conf.jitter = 0.3;
    conf.trig_frag = 0.0;
    conf.trig_dead = 0;
    if r.chance(1, 2) {
        conf.thr_frag = 1.0;
        conf.thr_dead = u64::MAX;
        conf.thr_small = u64::MAX;
    } else {
        conf.thr_frag = 0.0;
        conf.thr_dead = 0;
        conf.thr_small = 0;
    }
    let dir = fresh_dir(&ctx.scratch, &format!("c{}", case));
    let mut extra: Vec<String> = vec![format!("seed:{}", ctx.seed ^ case)];
    let delays = r.chance(3, 4);
    if delays {
        let p = *r.pick(&[30_000u32, 100_000, 300_000]);
        extra.push(format!("delay:{},{},{},{},{},{}", shim::C_WRITE, shim::F_DATA, shim::AFTER, p, 20, 500));
        extra.push(format!("delay:{},{},{},{},{},{}", shim::C_OPENRD | shim::C_MMAP, shim::F_DATA, shim::BEFORE | shim::AFTER, p, 20, 300));
        extra.push(format!("delay:{},{},{},{},{},{}", shim::C_UNLINK, shim::F_ANY, shim::BEFORE, p, 20, 400));
    }
    let threads = *r.pick(&[1usize, 2, 4]);
    let mut srv = match Server::spawn(&dir, &conf, 64, threads, &extra) {
        Ok(s) => s,
        Err(e) => {
            out.inconclusive.push(format!("case {}: could not start the server child: {}", case, e));
            return;
        }
    };
    let keys: Vec<Vec<u8>> = (0..nkeys).map(|i| format!("key-{}", i).into_bytes()).collect();
    // a quarter of the episodes: now and then one open-for-reading or mmap of a data file fails in the
    // server (EIO / EMFILE), under a GET or under the background merge
    let faulty = case % 4 == 2;
    let sh = Arc::new(Shared {
        faulty,
        port: srv.port,
        gets_ended_by_a_failure: AtomicU64::new(0),
        keys: keys.clone(),
        hist: (0..nkeys).map(|_| Mutex::new(Vec::new())).collect(),
        problems: Mutex::new(Vec::new()),
        next_id: AtomicU64::new(1),
        go: AtomicU64::new(0),
        done: AtomicU64::new(0),
        stop: AtomicBool::new(false),
        ops_done: AtomicU64::new(0),
    });
    let mut joins = Vec::new();
    let port = srv.port;
    for tid in 0..nclients {
        let sh = sh.clone();
        let mut tr = Rng::derive(ctx.seed ^ case, 0x1100 + tid as u64);
        joins.push(std::thread::spawn(move || {
            let mut client = match connect(port).and_then(|s| s.try_clone().map(|t| (s, t))) {
                Ok((s, t)) => Client { tx: t, rx: Rx::new(s), retired: false },
                Err(e) => {
                    problem(&sh, "connect-failed", format!("client {} could not connect: {}", tid, e));
                    // still take part in the barriers
                    let mut seg = 0u64;
                    loop {
                        while sh.go.load(Ordering::Acquire) <= seg {
                            if sh.stop.load(Ordering::Acquire) {
                                return;
                            }
                            std::thread::yield_now();
                        }
                        seg += 1;
                        sh.done.fetch_add(1, Ordering::AcqRel);
                    }
                }
            };
            let mut seg = 0u64;
            loop {
                while sh.go.load(Ordering::Acquire) <= seg {
                    if sh.stop.load(Ordering::Acquire) {
                        return;
                    }
                    std::thread::sleep(Duration::from_micros(50));
                }
                seg += 1;
                for _ in 0..ops_per_seg {
                    one_op(&sh, &mut client, tid as u32, &mut tr);
                }
                sh.done.fetch_add(1, Ordering::AcqRel);
            }
        }));
    }
    let mut coord = match connect(port).and_then(|s| s.try_clone().map(|t| (s, t))) {
        Ok((s, t)) => Client { tx: t, rx: Rx::new(s), retired: false },
        Err(e) => {
            out.inconclusive.push(format!("case {}: coordinator could not connect: {}", case, e));
            sh.stop.store(true, Ordering::Release);
            srv.stop();
            return;
        }
    };
    let mut init: Vec<Option<u64>> = vec![None; nkeys];
    let mut sample: Option<serde_json::Value> = None;
    let mut segs_done = 0u64;
    'seg: for seg in 0..segments {
        ctx.breadcrumb(case, &format!("segment {}", seg));
        if faulty && r.chance(1, 3) {
            // read side (open for reading, mmap) or write side (write, create of a data file)
            let cls = if r.chance(1, 2) { shim::C_OPENRD | shim::C_MMAP } else { shim::C_WRITE | shim::C_CREATE };
            if srv.arm_fault(cls, shim::F_DATA, r.below(4) as i64, if r.chance(1, 2) { libc::EIO } else { libc::EMFILE }) {
                out.count(if cls & shim::C_WRITE != 0 { "write_side_failures_armed_in_server" } else { "read_side_failures_armed_in_server" }, 1);
            }
        }
        sh.done.store(0, Ordering::Release);
        sh.go.store(seg + 1, Ordering::Release);
        let t0 = Instant::now();
        while sh.done.load(Ordering::Acquire) < nclients as u64 {
            std::thread::sleep(Duration::from_micros(200));
            if t0.elapsed() > Duration::from_secs(120) {
                out.violation("hang", format!("case {} segment {}: clients did not finish a segment of {} commands each within 120 s", case, seg, ops_per_seg), ctx.replay(case, json!({"segment": seg})));
                break 'seg;
            }
        }
        // quiescent reads through the coordinator's own connection
        let mut quiescent: Vec<Option<u64>> = Vec::new();
        for (ki, k) in keys.iter().enumerate() {
            let mut call = stamp();
            let mut res = request(&mut coord, &command(&[b"GET", k]));
            let mut ret = stamp();
            let mut tries = 0;
            while faulty && tries < 5 && matches!(res, Err(ReadErr::Eof) | Err(ReadErr::Reset(_))) {
                // the coordinator's own GET ran into the injected failure
                tries += 1;
                sh.gets_ended_by_a_failure.fetch_add(1, Ordering::Relaxed);
                if let Ok((s, t)) = connect(port).and_then(|s| s.try_clone().map(|t| (s, t))) {
                    coord = Client { tx: t, rx: Rx::new(s), retired: false };
                }
                call = stamp();
                res = request(&mut coord, &command(&[b"GET", k]));
                ret = stamp();
            }
            match res {
                Ok(RFrame::Null) => {
                    sh.hist[ki].lock().unwrap().push(Op { thread: 999, kind: Kind::Get(None), call, ret });
                    quiescent.push(None);
                }
                Ok(RFrame::Bulk(v)) => match id_of(&v) {
                    Some(i) => {
                        sh.hist[ki].lock().unwrap().push(Op { thread: 999, kind: Kind::Get(Some(i)), call, ret });
                        quiescent.push(Some(i));
                    }
                    None => {
                        problem(&sh, "torn-or-foreign-value", format!("quiescent GET {} returned bytes that are not a value written in full", show(k)));
                        quiescent.push(None);
                    }
                },
                other => {
                    problem(&sh, "no-reply", format!("quiescent GET {} got {:?}", show(k), other.map(|f| crate::resp::brief(&f)).map_err(|e| format!("{:?}", e))));
                    quiescent.push(None);
                }
            }
        }
        for ki in 0..nkeys {
            let ops: Vec<Op> = std::mem::take(&mut *sh.hist[ki].lock().unwrap());
            out.evaluations += 1;
            match linz::check_key(&ops, init[ki], 3_000_000) {
                Verdict::Ok { nodes } => out.max("checker_states_in_one_history", nodes),
                Verdict::Violation { explanation } => {
                    out.violation(
                        "not-linearizable",
                        format!("case {} segment {} key {}: {} (initial value {:?})", case, seg, show(&keys[ki]), explanation, init[ki]),
                        ctx.replay(case, json!({"segment": seg, "key": show(&keys[ki]), "initial": init[ki], "history": ops.iter().map(linz::brief).collect::<Vec<_>>()})),
                    );
                }
                Verdict::Inconclusive(_) => out.count("histories_inconclusive", 1),
            }
            let pairs = linz::overlapping_get_set_pairs(&ops);
            out.count("gets_overlapping_a_write_of_the_same_key", pairs);
            if pairs > 0 {
                out.class(format!("{:016x}", linz::overlap_pattern(&ops)));
            }
            if (sample.is_none() && pairs > 1 && ops.len() <= 12) || (sample.is_none() && out.samples.is_empty() && !ops.is_empty() && ops.len() <= 20) {
                sample = Some(json!({"case": case, "segment": seg, "key": show(&keys[ki]), "initial": init[ki], "history": ops.iter().map(linz::brief).collect::<Vec<_>>()}));
            }
            init[ki] = quiescent[ki];
        }
        segs_done += 1;
        let probs: Vec<(String, String)> = std::mem::take(&mut *sh.problems.lock().unwrap());
        if !probs.is_empty() {
            let dead = srv.ended();
            for (sig, desc) in probs {
                out.violation(&sig, format!("case {} segment {}: {}{}", case, seg, desc, dead.as_ref().map(|d| format!(" [server process ended: {}]", d)).unwrap_or_default()), ctx.replay(case, json!({"segment": seg})));
            }
            break;
        }
    }
    sh.stop.store(true, Ordering::Release);
    for j in joins {
        let _ = j.join();
    }
    let st = srv.stats();
    out.count("episodes", 1);
    if faulty {
        out.count("episodes_with_read_side_failures", 1);
        out.count("commands_ended_by_an_injected_failure", sh.gets_ended_by_a_failure.load(Ordering::Relaxed));
    }
    out.count("segments", segs_done);
    out.count("commands", sh.ops_done.load(Ordering::Relaxed));
    out.count("merges_observed_in_server", st["hint_files_created"].as_u64().unwrap_or(0));
    out.count("files_unlinked_in_server", st["unlinks"].as_u64().unwrap_or(0));
    out.count("delays_injected_in_server", st["delays"].as_u64().unwrap_or(0));
    out.class_counter(&format!("cfg:c{}|k{}|pool{}|mfs{}|rt{}|delays{}", nclients, nkeys, conf.conc, conf.max_file_size, threads, delays as u8));
    if let Some(s) = sample {
        out.sample(s);
    }
    srv.stop();
    let _ = std::fs::remove_dir_all(&dir);
}

fn worker(ctx: &Ctx, out: &mut Out) {
    for case in ctx.cases(ctx.tier.pick(96, 1600)) {
        ctx.checkpoint(out);
        episode(ctx, case, out);
        if out.violations.len() > 8 {
            break;
        }
    }
}

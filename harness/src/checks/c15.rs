//! C15 - the connection limit holds and slots are never leaked.

use std::io::Write;
use std::time::{Duration, Instant};

use serde_json::json;

use super::{ncpu, secs, standard_run, Check};
use crate::netcli::{connect, Rx, Server};
use crate::orch::{even_plans, CheckSpec, Ctx, Out, Tier};
use crate::resp::{command, RFrame};
use crate::rng::Rng;
use crate::store::{fresh_dir, Conf};

pub fn check() -> Check {
    Check {
        spec: CheckSpec {
            id: "C15",
            level: "exploration",
            rule: "one case = one scenario against a child process running the real Server with max_connections = N (2-8). (1) Limit: N connections are opened and each proven live by a request/reply; an (N+1)-th client sends a request and is watched for 500 ms: a reply that arrives while the N others are still open and all answer another request afterwards is a violation; then one of the N is closed and the waiting client must be served. Also 3N clients connect at once and the number served-and-still-open is watched while served ones are closed in rounds until all were served. (2) Leak: a batch of 2N-6N connections is ended in one way (clean close; close mid-frame; malformed command so that the server closes; a panic inside the connection's handler task; a panic on the blocking thread; reset with unread replies; or arriving during a 30-90 ms descriptor shortage of the server process, in which accept() fails with EMFILE and is retried; or being reset while still in the listen backlog because every slot is taken), in overlapping groups, and then a full-capacity probe opens N fresh connections that must all be served at the same time. One evaluation = one limit observation or one capacity probe. Non-trivial/distinct = distinct (N, ending kind, batch size, overlap) probes and limit observations.",
            assumptions: vec![
                "the only wall-clock negative observation is 'no reply within 500 ms', and it is never a verdict by itself: the verdict is a reply that does arrive while N others are provably being served",
                "handler panics are produced by the harness's storage wrapper (serve.rs: PanickyKv); listener, semaphore accounting and handler are the real code",
            ],
            death_is_violation: false,
        },
        timing_dependent: true,
        run,
        worker,
    }
}

fn run(c: &Check, tier: Tier, seed: u64, t0: Instant) -> i32 {
    let n = ncpu() as u64;
    standard_run(c, tier, seed, t0, even_plans("", n, secs(tier.pick(900, 10_800))), n as usize, 10)
}

struct Conn {
    tx: std::net::TcpStream,
    rx: Rx,
}

fn open(port: u16) -> Option<Conn> {
    let s = connect(port).ok()?;
    let t = s.try_clone().ok()?;
    Some(Conn { tx: t, rx: Rx::new(s) })
}

/// One request/reply; true if the (right kind of) reply came before the deadline.
fn ping(c: &mut Conn, tag: &str, within: Duration) -> bool {
    let k = format!("probe-{}", tag);
    if c.tx.write_all(&command(&[b"SET", k.as_bytes(), b"v"])).is_err() {
        return false;
    }
    matches!(c.rx.reply(Instant::now() + within), Ok(RFrame::Simple(_)))
}

fn send_only(c: &mut Conn, tag: &str) -> bool {
    let k = format!("probe-{}", tag);
    c.tx.write_all(&command(&[b"GET", k.as_bytes()])).is_ok()
}

fn got_reply(c: &mut Conn, within: Duration) -> bool {
    c.rx.reply(Instant::now() + within).is_ok()
}

const ENDINGS: &[&str] = &["clean-close", "close-mid-frame", "malformed-command", "handler-panic", "blocking-thread-panic", "reset-with-unread-replies", "accept-failure", "reset-in-backlog"];

/// Open a connection and end it in the given way. Returns true if the server closed it.
fn faulty_connection(port: u16, kind: &str, r: &mut Rng) -> bool {
    let mut c = match open(port) {
        Some(c) => c,
        None => return false,
    };
    let wait_close = |c: &mut Conn| -> bool {
        let d = Instant::now() + Duration::from_secs(5);
        while Instant::now() < d && !c.rx.eof && c.rx.err.is_none() {
            c.rx.poll();
        }
        c.rx.eof || c.rx.err.is_some()
    };
    match kind {
        "clean-close" => {
            if r.chance(1, 2) {
                let _ = ping(&mut c, "cc", Duration::from_secs(20));
            }
            false
        }
        "close-mid-frame" => {
            let full = command(&[b"SET", b"half", b"value-that-never-arrives"]);
            let cut = r.range(1, full.len() as u64 - 1) as usize;
            let _ = c.tx.write_all(&full[..cut]);
            if r.chance(1, 2) {
                std::thread::sleep(Duration::from_millis(r.range(0, 5)));
            }
            false
        }
        "malformed-command" => {
            let opts: [&[u8]; 5] = [b"*1\r\n$4\r\nPING\r\n", b"garbage\r\n", b"*2\r\n$3\r\nGET\r\n:1\r\n", b"+OK\r\n", b"*1\r\n$3\r\nGET\r\n"];
            let _ = c.tx.write_all(*r.pick(&opts[..]));
            wait_close(&mut c)
        }
        "handler-panic" => {
            let _ = c.tx.write_all(&command(&[b"GET", b"__panic_in_handler__"]));
            let _ = c.rx.reply(Instant::now() + Duration::from_secs(20));
            let _ = c.tx.write_all(&command(&[b"GET", b"x"]));
            wait_close(&mut c)
        }
        "blocking-thread-panic" => {
            let _ = c.tx.write_all(&command(&[b"SET", b"__panic_in_blocking__", b"x"]));
            wait_close(&mut c)
        }
        _ => {
            // many requests, never read the replies, then drop: the kernel resets the connection
            let mut v = Vec::new();
            for _ in 0..r.range(5, 200) {
                v.extend_from_slice(&command(&[b"GET", b"x"]));
            }
            let _ = c.tx.write_all(&v);
            false
        }
    }
}

/// N fresh connections must all be served while the others are open.
fn capacity_probe(port: u16, n: usize, tag: &str) -> (usize, Vec<Conn>) {
    let mut conns: Vec<Conn> = Vec::new();
    for _ in 0..n {
        if let Some(c) = open(port) {
            conns.push(c);
        }
    }
    let opened = conns.len();
    let mut served = 0;
    // send on all first, then collect: they are all open at the same time
    for (i, c) in conns.iter_mut().enumerate() {
        let _ = send_only(c, &format!("{}-{}", tag, i));
    }
    let deadline = Instant::now() + Duration::from_secs(20);
    let mut ok = vec![false; opened];
    while Instant::now() < deadline && served < opened {
        for (i, c) in conns.iter_mut().enumerate() {
            if !ok[i] && got_reply(c, Duration::from_millis(1)) {
                ok[i] = true;
                served += 1;
            }
        }
    }
    (served, conns)
}

fn scenario(ctx: &Ctx, case: u64, out: &mut Out) {
    let mut r = Rng::derive(ctx.seed, 0xC15_0000_0000 ^ case);
    let n = r.range(2, 8) as usize;
    let dir = fresh_dir(&ctx.scratch, &format!("c{}", case));
    let mut conf = Conf::default();
    conf.conc = 2;
    let threads = *r.pick(&[1usize, 2, 4]);
    // the listener's retry of a failed accept: from 5 ms, giving up (by design) only past 10 s
    let mut srv = match Server::spawn(&dir, &conf, n, threads, &["backoff:5,10000".to_string()]) {
        Ok(s) => s,
        Err(e) => {
            out.inconclusive.push(format!("case {}: could not start the server child: {}", case, e));
            return;
        }
    };
    let port = srv.port;
    let mode = case % 3;
    if mode == 0 {
        // (1a) N open and live, the (N+1)-th must wait
        ctx.breadcrumb(case, "limit N+1");
        let mut held: Vec<Conn> = (0..n).filter_map(|_| open(port)).collect();
        let mut live = 0;
        for (i, c) in held.iter_mut().enumerate() {
            if ping(c, &format!("h{}", i), Duration::from_secs(20)) {
                live += 1;
            }
        }
        out.evaluations += 1;
        if live < n {
            out.violation("capacity-below-limit", format!("case {}: max_connections={} but only {} of {} simultaneously opened connections were served within 20 s", case, n, live, n), ctx.replay(case, json!({"n": n})));
        } else if let Some(mut extra) = open(port) {
            let _ = send_only(&mut extra, "extra");
            let early = got_reply(&mut extra, Duration::from_millis(500));
            if early {
                // is everybody else still being served?
                let mut still = 0;
                for (i, c) in held.iter_mut().enumerate() {
                    if ping(c, &format!("again{}", i), Duration::from_secs(20)) {
                        still += 1;
                    }
                }
                if still == n {
                    out.violation("limit-exceeded", format!("case {}: max_connections={}: an extra client received a reply while {} other connections were open, and all {} answered another request afterwards: {} connections were served at the same time", case, n, n, n, n + 1), ctx.replay(case, json!({"n": n})));
                } else {
                    out.count("limit_observations_discarded", 1);
                }
            } else {
                out.count("extra_client_kept_waiting", 1);
                // close one: the waiting client must now be served
                let victim = r.usize_below(held.len());
                drop(held.remove(victim));
                if !got_reply(&mut extra, Duration::from_secs(20)) {
                    out.violation("slot-not-released-after-close", format!("case {}: max_connections={}: after one of the {} connections was closed the waiting client was not served within 20 s", case, n, n), ctx.replay(case, json!({"n": n})));
                } else {
                    out.count("waiting_client_served_after_a_close", 1);
                    out.class(format!("limit-n{}-victim{}-rt{}", n, victim, threads));
                }
            }
            out.max("simultaneously_served", live as u64);
        }
    } else if mode == 1 {
        // (1b) 3N at once
        ctx.breadcrumb(case, "3N at once");
        let mut conns: Vec<Option<Conn>> = (0..3 * n).map(|_| open(port)).collect();
        for (i, c) in conns.iter_mut().enumerate() {
            if let Some(c) = c {
                let _ = send_only(c, &format!("m{}", i));
            }
        }
        let mut served_open: Vec<usize> = Vec::new();
        let mut served_total = 0usize;
        let total = conns.iter().filter(|c| c.is_some()).count();
        let deadline = Instant::now() + Duration::from_secs(40);
        out.evaluations += 1;
        let mut worst = 0usize;
        let mut rounds = 0;
        while served_total < total && Instant::now() < deadline {
            // collect for a while
            let until = Instant::now() + Duration::from_millis(150);
            while Instant::now() < until {
                for (i, c) in conns.iter_mut().enumerate() {
                    if let Some(c) = c {
                        if !served_open.contains(&i) && got_reply(c, Duration::from_millis(1)) {
                            served_open.push(i);
                            served_total += 1;
                        }
                    }
                }
            }
            worst = worst.max(served_open.len());
            if served_open.len() > n {
                // are they really all being served right now?
                let mut alive = 0;
                for i in &served_open {
                    if let Some(c) = conns[*i].as_mut() {
                        if ping(c, &format!("chk{}", i), Duration::from_secs(20)) {
                            alive += 1;
                        }
                    }
                }
                if alive > n {
                    out.violation("limit-exceeded", format!("case {}: max_connections={}: {} connections had been answered and were still open, and {} of them answered another request: more than {} served at once", case, n, served_open.len(), alive, n), ctx.replay(case, json!({"n": n})));
                    break;
                }
            }
            // close the served ones so that the waiting ones get their turn
            for i in served_open.drain(..) {
                conns[i] = None;
            }
            rounds += 1;
        }
        out.max("simultaneously_served", worst as u64);
        if served_total < total && out.violations.is_empty() {
            out.violation("waiting-clients-never-served", format!("case {}: max_connections={}: of {} simultaneous clients only {} were ever served within 40 s although served ones were closed", case, n, total, served_total), ctx.replay(case, json!({"n": n})));
        } else {
            out.count("burst_clients_served", served_total as u64);
            out.class(format!("burst-n{}-rounds{}-rt{}", n, rounds, threads));
        }
    } else {
        // (2) leak: a batch ended one way, then the full-capacity probe
        let kind = ENDINGS[((case / 3) as usize) % ENDINGS.len()];
        let batch = r.range(2 * n as u64, 6 * n as u64) as usize;
        let overlap = r.range(1, n as u64) as usize;
        ctx.breadcrumb(case, &format!("leak {} x{}", kind, batch));
        let mut closed_by_server = 0;
        let mut left = batch;
        if kind == "reset-in-backlog" {
            // every slot is taken by a live connection; further peers connect (the kernel completes
            // the handshake into the listen backlog), and are reset (SO_LINGER 0) before the listener
            // gets to them; then the slots are freed and the listener accepts sockets that are
            // already dead. Each of those took a slot and has to give it back
            use std::os::unix::io::AsRawFd;
            left = 0;
            let mut fillers: Vec<Conn> = (0..n).filter_map(|_| open(port)).collect();
            let mut live = 0;
            for (i, c) in fillers.iter_mut().enumerate() {
                if ping(c, &format!("bl{}", i), Duration::from_secs(20)) {
                    live += 1;
                }
            }
            if live == n {
                let k = r.range(1, 2 * n as u64);
                for _ in 0..k {
                    if let Ok(mut a) = connect(port) {
                        let _ = a.write_all(b"*1\r\n");
                        let lg = libc::linger { l_onoff: 1, l_linger: 0 };
                        unsafe { libc::setsockopt(a.as_raw_fd(), libc::SOL_SOCKET, libc::SO_LINGER, &lg as *const _ as *const libc::c_void, std::mem::size_of::<libc::linger>() as libc::socklen_t) };
                        drop(a);
                    }
                }
                out.count("peers_reset_while_in_the_listen_backlog", k);
                std::thread::sleep(Duration::from_millis(r.range(5, 30)));
            }
            while let Some(f) = fillers.pop() {
                drop(f);
                std::thread::sleep(Duration::from_millis(r.range(0, 5)));
            }
            std::thread::sleep(Duration::from_millis(100));
        }
        if kind == "accept-failure" {
            // connections that arrive while the server process is out of descriptors: accept()
            // fails (EMFILE) and is retried by the listener until the shortage is over; the client
            // that waited through it must then be served like any other
            left = 0;
            for w in 0..r.range(2, 4) {
                let ms = r.range(30, 90);
                if !srv.fd_shortage_begin(ms) {
                    out.inconclusive.push(format!("case {}: the server child did not confirm the descriptor shortage", case));
                    break;
                }
                let mut c = open(port);
                if let Some(c) = c.as_mut() {
                    let _ = send_only(c, &format!("short{}", w));
                }
                if !srv.fd_shortage_end() {
                    out.inconclusive.push(format!("case {}: the server child did not confirm the end of the descriptor shortage", case));
                    break;
                }
                out.count("descriptor_shortage_windows", 1);
                if let Some(c) = c.as_mut() {
                    if got_reply(c, Duration::from_secs(20)) {
                        out.count("clients_served_after_waiting_through_failed_accepts", 1);
                    } else if srv.ended().is_none() {
                        out.violation("client-never-served-after-accept-failures", format!("case {}: max_connections={}: a client that connected during a {} ms descriptor shortage of the server was not served within 20 s after the shortage was over", case, n, ms), ctx.replay(case, json!({"n": n, "kind": kind})));
                    }
                }
            }
        }
        while left > 0 {
            ctx.breadcrumb(case, &format!("leak {} ({} to go)", kind, left));
            let g = left.min(overlap);
            let mut ts = Vec::new();
            for j in 0..g {
                let k = kind.to_string();
                let mut tr = Rng::derive(ctx.seed ^ case, (left * 31 + j) as u64);
                ts.push(std::thread::spawn(move || faulty_connection(port, &k, &mut tr)));
            }
            for t in ts {
                if let Ok(true) = t.join() {
                    closed_by_server += 1;
                }
            }
            left -= g;
        }
        if kind != "accept-failure" && kind != "reset-in-backlog" {
            out.count(&format!("connections_ended_by_{}", kind), batch as u64);
        }
        out.count("connections_closed_by_server", closed_by_server);
        out.evaluations += 1;
        let (served, held) = capacity_probe(port, n, &format!("p{}", case));
        if let Some(st) = srv.ended() {
            out.violation("server-died", format!("case {}: the server process ended ({}) after {} connections ended by {}", case, st, batch, kind), ctx.replay(case, json!({"n": n, "kind": kind})));
        } else if served < n {
            out.violation(
                &format!("capacity-lost-after-{}", kind),
                format!("case {}: max_connections={}: after {} connections ended by {} only {} of {} fresh connections could be served at the same time (slots leaked)", case, n, batch, kind, served, n),
                ctx.replay(case, json!({"n": n, "kind": kind, "batch": batch})),
            );
        } else {
            out.count("capacity_probes_passed", 1);
            out.class(format!("leak-{}-n{}-b{}-o{}", kind, n, batch, overlap));
        }
        out.max("simultaneously_served", served as u64);
        drop(held);
    }
    if out.samples.len() < 3 && (case % 11 == 2 || out.samples.is_empty()) {
        let mode_name = ["N+1 limit", "3N burst", "leak + capacity probe"][mode as usize];
        out.sample(json!({"case": case, "max_connections": n, "mode": mode_name, "runtime_threads": threads}));
    }
    srv.stop();
    let _ = std::fs::remove_dir_all(&dir);
}

fn worker(ctx: &Ctx, out: &mut Out) {
    for case in ctx.cases(ctx.tier.pick(288, 3600)) {
        ctx.checkpoint(out);
        scenario(ctx, case, out);
        if out.violations.len() > 8 {
            break;
        }
    }
}

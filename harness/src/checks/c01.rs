//! C01 - the store behaves as a key-value map for every operation sequence.

use std::time::Instant;

use serde_json::json;

use super::{guarded, ncpu, secs, standard_run, Check};
use crate::orch::{even_plans, CheckSpec, Ctx, Out, Tier};
use crate::rng::Rng;
use crate::seqeng::{draw_conf, draw_keys, Eng, Fail};
use crate::store::{draw_thresholds, fresh_dir};

pub fn check() -> Check {
    Check {
        spec: CheckSpec {
            id: "C01",
            level: "exploration",
            rule: "one case = one generated episode (configuration drawn from max_file_size {0,1,64,300,1000,4096,65536,2GiB} x reader cache {0,1,2,256} x reader pool {0,1,4} x 8 threshold families; 2-9 keys incl. empty/binary/300B/9000B; 40-300 set/get/del ops with values 0B..200KB, merge passes at random positions) run against the real store and compared op by op with a HashMap model, every key re-read after each merge. Non-trivial = the episode rolled over to >1 data file, overwrote a key, deleted a present key and ran a merge that removed at least one file; distinct = by hash of (configuration, keys, op sequence).",
            assumptions: vec!["merge passes are driven through the feature-gated verif_merge hook, which calls the same private merge() the timer calls", "single thread (concurrency is C04)"],
            death_is_violation: true,
        },
        timing_dependent: false,
        run,
        worker,
    }
}

fn total_cases(t: Tier) -> u64 {
    t.pick(20_000, 600_000)
}

fn run(c: &Check, tier: Tier, seed: u64, t0: Instant) -> i32 {
    let n = ncpu() as u64;
    standard_run(c, tier, seed, t0, even_plans("", n, secs(tier.pick(600, 7200))), n as usize, 20)
}

fn episode(ctx: &Ctx, case: u64, out: &mut Out) -> Result<(), (Fail, String)> {
    let mut r = Rng::derive(ctx.seed, 0xC01_0000_0000 ^ case);
    let mut conf = draw_conf(&mut r);
    let thr = draw_thresholds(&mut r, &mut conf);
    let keys = draw_keys(&mut r, false, true);
    let nops = r.range(40, ctx.tier.pick(300, 500));
    let merge_pct = *r.pick(&[0u64, 2, 4, 8]);
    let dir = fresh_dir(&ctx.scratch, &format!("c{}", case));
    let mut e = Eng::new(r, &dir, conf, thr, keys, true);
    e.huge_ok = case % 8 == 5;
    // an eighth of the episodes on a file system that completes some writes only partly
    // another eighth: now and then a set or delete in which one call on a data file fails (half of
    // them after a part of the entry was written); the key may then be in either state until it is
    // written again, every other key and every later operation as the map says
    let faulty = case % 8 == 3;
    let mut failing = 0u64;
    let short = if case % 8 == 6 { Some(crate::shim::short_env(&dir, ctx.seed ^ case)) } else { None };
    let res = (|| -> Result<(), Fail> {
        e.open()?;
        for _ in 0..nops {
            if e.r.below(100) < merge_pct {
                e.do_merge()?;
                e.check_all("after merge")?;
                // reads served from a merge output
                let outs = e.merge_outputs.clone();
                if !outs.is_empty() {
                    let d = e.st().dump();
                    e.f.reads_from_merge_output += d.keydir.iter().filter(|k| outs.contains(&k.fileid)).count() as u64;
                }
            } else if faulty && e.r.chance(1, 25) {
                if e.do_faulty_op()? {
                    failing += 1;
                }
            } else {
                e.random_op()?;
            }
        }
        e.check_all("end of episode")?;
        Ok(())
    })();
    e.close();
    if let Some(s) = short {
        out.count("episodes_with_short_writes", 1);
        out.count("short_writes", s.done());
    }
    if faulty {
        out.count("episodes_with_failing_operations", 1);
        out.count("operations_with_one_failing_call", failing);
    }
    out.evaluations += 1;
    out.count("ops", e.trace.len() as u64);
    out.count("sets", e.f.sets);
    out.count("gets", e.f.gets);
    out.count("dels_present", e.f.del_present);
    out.count("dels_absent", e.f.del_absent);
    out.count("overwrites", e.f.overwrites);
    out.count("merges", e.f.merges);
    out.count("merges_removing_files", e.f.merges_nonempty);
    out.count("merges_partial_selection", e.f.merges_partial);
    out.count("reads_from_merge_output", e.f.reads_from_merge_output);
    out.count("entries_above_write_buffer", e.f.big_entries);
    out.max("files_in_one_store", e.f.max_files);
    out.max("value_bytes", e.f.max_value);
    out.class_counter(&format!("cfg:mfs{}|cache{}|pool{}|{}", e.conf.max_file_size, e.conf.cache, e.conf.conc, e.thr_name));
    if e.nontrivial_basic() && e.f.merges_nonempty > 0 {
        out.class(format!("{:016x}", e.trace_hash()));
    }
    if case % 997 == 3 || out.samples.is_empty() {
        out.sample(e.sample(case));
    }
    let tail = e.tail_trace(25);
    let _ = std::fs::remove_dir_all(&dir);
    res.map_err(|f| (f, tail))
}

fn worker(ctx: &Ctx, out: &mut Out) {
    for case in ctx.cases(total_cases(ctx.tier)) {
        ctx.checkpoint(out);
        guarded(ctx, out, case, "episode", |out| {
            if let Err((f, tail)) = episode(ctx, case, out) {
                out.violation(&f.sig, format!("case {}: {}", case, f.desc), ctx.replay(case, json!({"last_ops": tail})));
            }
        });
    }
}

//! C18 - background merge and sync follow the configured policy.

use std::time::{Duration, Instant};

use serde_json::json;

use super::{ncpu, secs, standard_run, Check};
use crate::orch::{even_plans, CheckSpec, Ctx, Out, Tier};
use crate::rng::Rng;
use crate::scan;
use crate::shim::{self, *};
use crate::store::{fresh_dir, Conf, Policy, Store, SyncMode};

pub fn check() -> Check {
    Check {
        spec: CheckSpec {
            id: "C18",
            level: "exploration",
            rule: "one case = one scenario on a store that nobody calls after the set-up writes; the shim's time-stamped log of the store directory is the observation (hint-file creation / unlinks = a merge pass ran; fsync of the active data file). Scenarios: policy never with triggers exceeded -> no merge in 10 intervals; policy always with no trigger exceeded, including dead bytes EQUAL to the trigger and fragmentation EQUAL to the trigger -> none in 10 intervals; policy always with the dead-bytes trigger or the fragmentation trigger crossed by the last set-up write at time t -> a merge by t + interval*(1+jitter) + 3 s, for interval 150-400 ms and jitter 0 / 0.3 / 1.0; (in half of these scenarios the first pass the background task starts fails with an injected ENOSPC and one more interval is allowed: the task has to try again); policy window containing / not containing the current local hour -> as always / never; interval sync 100-300 ms on an idle open store -> consecutive fsyncs of the active file at most 2*interval + 1.5 s apart over 8 intervals, and none after close (in half of these the first periodic fsync fails with EIO and the observation runs 2.3 s longer: the task has to go on). Non-trivial/distinct = distinct (scenario kind, interval, jitter, trigger relation) combinations; observed delays and gaps are recorded.",
            assumptions: vec![
                "wall-clock bounds with stated slack; a timer off by less than the slack passes",
                "window scenarios are skipped in the last two minutes of an hour",
                "the local time zone of a worker process is set through TZ (UTC, +12 h, -9 h, +5:30 h by worker), the expected hour is read back through localtime_r",
                "the set-up writes' own effect on the statistics is computed by the harness's independent record-size formula and cross-checked against verif_dump before the scenario is judged",
            ],
            death_is_violation: true,
        },
        timing_dependent: true,
        run,
        worker,
    }
}

fn run(c: &Check, tier: Tier, seed: u64, t0: Instant) -> i32 {
    let n = ncpu() as u64;
    standard_run(c, tier, seed, t0, even_plans("", n, secs(tier.pick(900, 10_800))), n as usize, 8)
}

fn local_hour_minute() -> (u32, u32) {
    unsafe {
        let t = libc::time(std::ptr::null_mut());
        let mut tm: libc::tm = std::mem::zeroed();
        libc::localtime_r(&t, &mut tm);
        (tm.tm_hour as u32, tm.tm_min as u32)
    }
}

const KINDS: &[&str] = &[
    "never-with-triggers-exceeded",
    "always-nothing-dead",
    "always-dead-bytes-equal-to-trigger",
    "always-fragmentation-equal-to-trigger",
    "always-dead-bytes-crossed",
    "always-fragmentation-crossed",
    "window-containing-now",
    "window-excluding-now",
    "interval-sync",
];

fn merge_events(evs: &[Ev], after_seq: u64) -> Vec<u64> {
    evs.iter()
        .filter(|e| e.seq > after_seq && e.result >= 0 && ((e.kind == K_OPEN && e.a & libc::O_CREAT as u64 != 0 && e.name.ends_with(".hint")) || e.kind == K_UNLINK))
        .map(|e| e.t_ns)
        .collect()
}

fn scenario(ctx: &Ctx, case: u64, out: &mut Out) {
    let mut r = Rng::derive(ctx.seed, 0xC18_0000_0000 ^ case);
    let kind = KINDS[(case as usize) % KINDS.len()];
    let interval = r.range(150, 400);
    let jitter = *r.pick(&[0.0f64, 0.3, 1.0]);
    let dir = fresh_dir(&ctx.scratch, &format!("c{}", case));
    let mut conf = Conf::default();
    conf.interval_ms = interval;
    conf.jitter = jitter;
    conf.max_file_size = 2 * 1024 * 1024 * 1024;
    // merges, when they run, take everything
    conf.thr_frag = 1.0;
    conf.thr_dead = u64::MAX;
    conf.thr_small = u64::MAX;
    // the set-up: key "a" written twice (first entry dead), key "b" once  ->  1 dead of 3 entries
    let va = vec![b'x'; r.range(10, 200) as usize];
    let dead_len = scan::rec_size(b"a", Some(&va));
    let (h, m) = local_hour_minute();
    match kind {
        "never-with-triggers-exceeded" => {
            conf.policy = Policy::Never;
            conf.trig_dead = 0;
            conf.trig_frag = 0.0;
        }
        "always-nothing-dead" => {
            conf.policy = Policy::Always;
            conf.trig_dead = 0;
            conf.trig_frag = 0.0;
        }
        "always-dead-bytes-equal-to-trigger" => {
            conf.policy = Policy::Always;
            conf.trig_dead = dead_len;
            conf.trig_frag = 1.0;
        }
        "always-fragmentation-equal-to-trigger" => {
            conf.policy = Policy::Always;
            conf.trig_dead = u64::MAX;
            conf.trig_frag = 0.5; // a twice, nothing else: 1 dead of 2
        }
        "always-dead-bytes-crossed" => {
            conf.policy = Policy::Always;
            conf.trig_dead = dead_len - 1;
            conf.trig_frag = 1.0;
        }
        "always-fragmentation-crossed" => {
            conf.policy = Policy::Always;
            conf.trig_dead = u64::MAX;
            conf.trig_frag = 0.3; // 1 dead of 3 = 0.333 > 0.3
        }
        "window-containing-now" => {
            conf.policy = Policy::Window(h, h);
            conf.trig_dead = 0;
            conf.trig_frag = 0.0;
        }
        "window-excluding-now" => {
            let o = (h + 12) % 24;
            conf.policy = Policy::Window(o, o);
            conf.trig_dead = 0;
            conf.trig_frag = 0.0;
        }
        _ => {
            conf.policy = Policy::Never;
            conf.sync = SyncMode::IntervalMs(r.range(100, 300));
        }
    }
    if kind.starts_with("window") && m >= 58 {
        out.count("window_scenarios_skipped_near_the_hour", 1);
        return;
    }
    shim::log_reset();
    shim::record_data(false);
    shim::delay_clear();
    shim::watch(Some(&dir));
    let mut st = match Store::open(&dir, &conf) {
        Ok(s) => s,
        Err(e) => {
            out.inconclusive.push(format!("case {}: open failed: {}", case, e));
            return;
        }
    };
    // set-up writes
    let mut ok = true;
    if kind != "always-nothing-dead" {
        ok &= st.set(b"a", &va).is_ok();
    }
    if kind != "always-fragmentation-equal-to-trigger" {
        ok &= st.set(b"b", b"live").is_ok();
    }
    if kind != "always-nothing-dead" {
        ok &= st.set(b"a", &va).is_ok(); // the crossing write
    }
    let t_cross = unsafe {
        let mut ts: libc::timespec = std::mem::zeroed();
        libc::clock_gettime(libc::CLOCK_MONOTONIC, &mut ts);
        ts.tv_sec as u64 * 1_000_000_000 + ts.tv_nsec as u64
    };
    shim::mark(M_NOTE, 7, 0);
    if !ok {
        out.inconclusive.push(format!("case {}: set-up writes failed", case));
        return;
    }
    // cross-check the harness's idea of the statistics against the store's
    let d = st.dump();
    let (dead_keys, dead_bytes, live): (u64, u64, u64) = d.stats.iter().fold((0, 0, 0), |a, s| (a.0 + s.dead_keys, a.1 + s.dead_bytes, a.2 + s.live_keys));
    let expect = match kind {
        "always-nothing-dead" => (0, 0, 1),
        "always-fragmentation-equal-to-trigger" => (1, dead_len, 1),
        _ => (1, dead_len, 2),
    };
    if (dead_keys, dead_bytes, live) != expect {
        // merged already (possible with crossed triggers and a short interval) or accounting differs (C19's subject)
        if !(kind.contains("crossed") || kind == "window-containing-now") {
            out.count("scenarios_skipped_statistics_not_as_planned", 1);
            st.close();
            shim::watch(None);
            return;
        }
    }
    let evs0 = shim::take_log(&dir, false);
    let mark_seq = evs0.iter().filter(|e| e.is_mark(M_NOTE) && e.a == 7).map(|e| e.seq).last().unwrap_or(0);
    out.evaluations += 1;
    out.count(&format!("scenarios_{}", kind), 1);
    let max_sleep_ms = (interval as f64 * (1.0 + jitter)) as u64;
    match kind {
        "never-with-triggers-exceeded" | "always-nothing-dead" | "always-dead-bytes-equal-to-trigger" | "always-fragmentation-equal-to-trigger" | "window-excluding-now" => {
            std::thread::sleep(Duration::from_millis(10 * interval));
            let evs = shim::take_log(&dir, false);
            let merges = merge_events(&evs, 0);
            if !merges.is_empty() {
                out.violation(&format!("merge-ran-{}", kind), format!("case {} ({}; interval {} ms, jitter {}): a merge pass ran within 10 intervals ({} merge events: hint file created / files unlinked) although the policy and triggers do not allow one (dead bytes {} vs trigger {}, fragmentation trigger {})", case, kind, interval, jitter, merges.len(), dead_len, conf.trig_dead, conf.trig_frag), ctx.replay(case, json!({"kind": kind})));
            } else {
                out.class(format!("{}-i{}-j{}", kind, interval / 50, jitter));
            }
        }
        "always-dead-bytes-crossed" | "always-fragmentation-crossed" | "window-containing-now" => {
            // half of these: the first pass the background task starts fails (its first create gets
            // ENOSPC). The task has to try again at its next tick: one interval more is allowed
            let failing_first = r.chance(1, 2);
            if failing_first {
                shim::fail(C_CREATE, F_ANY, 0, libc::ENOSPC);
                out.count("scenarios_whose_first_background_pass_fails", 1);
            }
            let bound_ms = if failing_first { 2 * max_sleep_ms + 3000 } else { max_sleep_ms + 3000 };
            let deadline = Instant::now() + Duration::from_millis(bound_ms);
            let mut seen: Option<u64> = None;
            while Instant::now() < deadline {
                std::thread::sleep(Duration::from_millis(10));
                let evs = shim::take_log(&dir, false);
                // a merge may already have run before the crossing mark if the timer fired in between set-up writes
                if let Some(t) = merge_events(&evs, 0).first() {
                    seen = Some(*t);
                    break;
                }
            }
            match seen {
                Some(t) => {
                    let delay_ms = t.saturating_sub(t_cross) / 1_000_000;
                    out.max("slowest_merge_after_crossing_ms", delay_ms);
                    out.count("merges_observed", 1);
                    out.class(format!("{}-i{}-j{}", kind, interval / 50, jitter));
                }
                None => {
                    let kind_sig = if failing_first { format!("{}-after-a-failed-pass", kind) } else { kind.to_string() };
                    out.violation(&format!("no-merge-{}", kind_sig), format!("case {} ({}): interval {} ms, jitter {}: no merge pass ran within {} ms after the trigger was crossed (dead bytes {} vs trigger {}, 1 dead of 3 entries vs fragmentation trigger {})", case, kind, interval, jitter, bound_ms, dead_len, conf.trig_dead, conf.trig_frag), ctx.replay(case, json!({"kind": kind})));
                }
            }
            shim::fail_off();
            let _ = mark_seq;
        }
        _ => {
            // interval sync on an idle store
            let si = match conf.sync {
                SyncMode::IntervalMs(n) => n,
                _ => 100,
            };
            let t_open = t_cross;
            // half of these: the first periodic fsync fails (EIO); the task has to go on syncing
            let failing_first = r.chance(1, 2);
            if failing_first {
                shim::fail(C_FSYNC, F_DATA, 0, libc::EIO);
                out.count("scenarios_whose_first_periodic_sync_fails", 1);
            }
            std::thread::sleep(Duration::from_millis(8 * si + if failing_first { 2500 } else { 200 }));
            shim::fail_off();
            let t_close = unsafe {
                let mut ts: libc::timespec = std::mem::zeroed();
                libc::clock_gettime(libc::CLOCK_MONOTONIC, &mut ts);
                ts.tv_sec as u64 * 1_000_000_000 + ts.tv_nsec as u64
            };
            st.close();
            std::thread::sleep(Duration::from_millis(3 * si));
            let evs = shim::take_log(&dir, false);
            let syncs: Vec<u64> = evs.iter().filter(|e| (e.kind == K_FSYNC || e.kind == K_FDATASYNC) && e.result == 0 && e.name.ends_with(".data")).map(|e| e.t_ns).collect();
            let bound_ns = (2 * si + 1500) * 1_000_000;
            let mut pts = vec![t_open];
            pts.extend(syncs.iter().cloned().filter(|t| *t >= t_open && *t <= t_close));
            pts.push(t_close);
            let worst = pts.windows(2).map(|w| w[1] - w[0]).max().unwrap_or(0);
            out.max("longest_gap_between_syncs_ms", worst / 1_000_000);
            out.count("fsyncs_observed", syncs.len() as u64);
            let late = syncs.iter().filter(|t| **t > t_close + 50_000_000 + si * 1_000_000).count();
            if worst > bound_ns {
                out.violation("sync-gap-too-long", format!("case {}: interval sync {} ms: the active file went {} ms without an fsync while the store was open ({} fsyncs in {} ms)", case, si, worst / 1_000_000, syncs.len(), (t_close - t_open) / 1_000_000), ctx.replay(case, json!({"kind": kind})));
            } else if late > 0 {
                out.violation("sync-after-close", format!("case {}: {} fsyncs happened after the store was closed", case, late), ctx.replay(case, json!({"kind": kind})));
            } else {
                out.class(format!("{}-s{}", kind, si / 25));
            }
        }
    }
    out.class_counter(&format!("kind:{}|jitter{}", kind, jitter));
    if out.samples.len() < 3 && (case % 7 == 3 || out.samples.is_empty()) {
        out.sample(json!({"case": case, "kind": kind, "interval_ms": interval, "jitter": jitter, "dead_entry_bytes": dead_len, "trigger_dead_bytes": if conf.trig_dead == u64::MAX { json!("max") } else { json!(conf.trig_dead) }, "trigger_fragmentation": conf.trig_frag}));
    }
    st.close();
    shim::watch(None);
    let _ = std::fs::remove_dir_all(&dir);
}

fn worker(ctx: &Ctx, out: &mut Out) {
    // the window policy goes by the local hour: three quarters of the workers run in a time zone whose
    // hour differs from UTC's (set before anything else runs in this process)
    let tz = ["UTC0", "VRF-12", "VRF+9", "VRF-5:30"][(ctx.shard % 4) as usize];
    std::env::set_var("TZ", tz);
    extern "C" {
        fn tzset();
    }
    unsafe { tzset() };
    out.class_counter(&format!("tz:{}", tz));
    for case in ctx.cases(ctx.tier.pick(144, 2880)) {
        ctx.checkpoint(out);
        ctx.breadcrumb(case, "scenario");
        scenario(ctx, case, out);
    }
}

//! C07 - the RESP parser is total: no input panics, aborts or mis-reads a number.

use std::io::Cursor;
use std::time::Instant;

use bitcask::net::frame::{Error as FErr, Frame};
use serde_json::json;

use super::{ncpu, secs, Check};
use crate::orch::{conclude, run_workers, show, CheckSpec, Ctx, Out, Tier, WorkerPlan};
use crate::resp::{brief, encode, from_impl, ref_parse, RFrame, RefOut};
use crate::rng::Rng;

pub fn check() -> Check {
    Check {
        spec: CheckSpec {
            id: "C07",
            level: "exploration",
            rule: "one evaluation = one byte string given to Frame::check and Frame::parse (parse alone, and parse after a successful check as Connection does), each call under catch_unwind on a thread with a 2 MiB stack (what a tokio worker has), in a child process whose death is observed. Inputs: grammar-generated frames (all six kinds, nested to depth 3), every truncation point of each, single-byte corruptions, integers/lengths placed at every buffer offset 1..64 with magnitudes around +-2^63, 2^64, 10^18..10^20, leading zeros and lone signs, random strings over the RESP alphabet, arrays nested 10..1,000,000 deep, and absurd array/bulk lengths under an address-space limit. Oracle: (a) no panic, no child death; (b) whenever the implementation returns a frame, the independent reference decoder (i128 arithmetic, no recursion) returns the same frame and the same length; (c) whenever check accepts n bytes, parse does not succeed with a different length. Non-trivial/distinct = distinct inputs on which the implementation returned a frame or an error other than Incomplete, counted by input hash; outcome classes are listed as kinds.",
            assumptions: vec![
                "the reference decoder's leniencies (optional '+', any byte after CR, any two bytes after a bulk payload) are the implementation's documented ones; anything beyond them is reported",
                "the dev-profile build has overflow checks on (overflow = panic); the thorough tier repeats the number inputs on a release build where overflow wraps and shows up as a wrong value",
            ],
            death_is_violation: true,
        },
        timing_dependent: false,
        run,
        worker,
    }
}

fn run(c: &Check, tier: Tier, seed: u64, t0: Instant) -> i32 {
    let n = ncpu() as u64;
    let to = secs(tier.pick(600, 7200));
    let mut plans: Vec<WorkerPlan> = Vec::new();
    let gen_shards = n.saturating_sub(3).max(2);
    for i in 0..gen_shards {
        plans.push(WorkerPlan { mode: "gen".into(), shard: i, nshards: gen_shards, timeout: to });
    }
    plans.push(WorkerPlan { mode: "numbers".into(), shard: 0, nshards: 1, timeout: to });
    plans.push(WorkerPlan { mode: "deep".into(), shard: 0, nshards: 1, timeout: to });
    plans.push(WorkerPlan { mode: "alloc".into(), shard: 0, nshards: 1, timeout: to });
    let mut out = run_workers(&c.spec, tier, seed, plans, n as usize);
    // thorough: repeat the number inputs on a plain release build, where overflow wraps
    let mut extra = json!({});
    if let Ok(bin) = std::env::var("BCVERIF_RELEASE_BIN") {
        if std::path::Path::new(&bin).exists() {
            let o2 = crate::orch::run_workers_with(&c.spec, tier, seed, vec![WorkerPlan { mode: "numbers".into(), shard: 0, nshards: 1, timeout: to }, WorkerPlan { mode: "gen".into(), shard: 0, nshards: 64, timeout: to }], 2, Some(std::path::PathBuf::from(&bin)));
            extra["release_build_inputs"] = json!(o2.evaluations);
            out.merge(o2);
        }
    }
    if let Ok(m) = std::env::var("BCVERIF_MIRI_SUMMARY") {
        extra["miri"] = json!(m);
    }
    conclude(&c.spec, tier, seed, out, t0.elapsed().as_secs_f64(), 1000, extra)
}

// ------------------------------------------------------------------------------------------------

pub fn gen_frame(r: &mut Rng, depth: u32) -> RFrame {
    let w = if depth >= 3 { [20, 10, 25, 30, 10, 0] } else { [16, 8, 22, 26, 8, 20] };
    match r.weighted(&w) {
        0 => RFrame::Simple(gen_line(r)),
        1 => RFrame::Error(gen_line(r)),
        2 => RFrame::Int(gen_int(r)),
        3 => {
            let n = match r.weighted(&[10, 60, 25, 5]) {
                0 => 0,
                1 => r.range(1, 24) as usize,
                2 => r.range(25, 300) as usize,
                _ => r.range(301, 3000) as usize,
            };
            let mut b = r.bytes(n);
            if n >= 2 && r.chance(1, 4) {
                // CRLF inside and at the end
                let p = r.usize_below(n - 1);
                b[p] = b'\r';
                b[p + 1] = b'\n';
                if r.chance(1, 2) {
                    b[n - 1] = b'\r';
                }
            }
            RFrame::Bulk(b)
        }
        4 => RFrame::Null,
        _ => {
            let n = r.range(0, 4);
            RFrame::Array((0..n).map(|_| gen_frame(r, depth + 1)).collect())
        }
    }
}

fn gen_line(r: &mut Rng) -> Vec<u8> {
    let n = r.range(0, 20) as usize;
    let mut v = Vec::new();
    for _ in 0..n {
        let c = match r.weighted(&[80, 10, 10]) {
            0 => r.range(0x20, 0x7e) as u8,
            1 => *r.pick(&[b'\t', 0u8, 0x7f, b' ']),
            _ => r.range(0x80, 0xff) as u8, // not valid UTF-8 on its own: parse must reject, not panic
        };
        v.push(c);
    }
    v
}

fn gen_int(r: &mut Rng) -> i64 {
    match r.weighted(&[20, 20, 30, 30]) {
        0 => *r.pick(&[0i64, 1, -1, i64::MAX, i64::MIN, i64::MAX - 1, i64::MIN + 1, 999_999_999_999_999_999, 1_000_000_000_000_000_000, -1_000_000_000_000_000_000]),
        1 => r.range(0, 1000) as i64 - 500,
        2 => r.next_u64() as i64,
        _ => {
            let digits = r.range(1, 19) as u32;
            let m = 10u128.pow(digits).min(i64::MAX as u128) as u64;
            let v = (r.next_u64() % m) as i64;
            if r.chance(1, 2) { -v } else { v }
        }
    }
}

const ALPHABET: &[u8] = b"+-:$*0123456789\r\n\r\n 1a\x00\xff";

struct Verdict {
    sig: String,
    desc: String,
}

#[derive(Default)]
struct Stats {
    frames: u64,
    errors: u64,
    incomplete: u64,
}

/// Apply the oracle to one input.
fn judge(buf: &[u8], st: &mut Stats, kinds: &mut std::collections::BTreeSet<String>) -> Option<Verdict> {
    // check
    let chk = std::panic::catch_unwind(|| {
        let mut c = Cursor::new(buf);
        let r = Frame::check(&mut c);
        (r, c.position() as usize)
    });
    let (chk_res, chk_pos) = match chk {
        Ok(x) => x,
        Err(_) => {
            let m = crate::last_panic();
            return Some(Verdict { sig: format!("check-panic:{}", crate::panic_site(&m)), desc: format!("Frame::check panicked ({}) on input {}", m, show(buf)) });
        }
    };
    // parse alone
    let prs = std::panic::catch_unwind(|| {
        let mut c = Cursor::new(buf);
        let r = Frame::parse(&mut c);
        (r, c.position() as usize)
    });
    let (prs_res, prs_pos) = match prs {
        Ok(x) => x,
        Err(_) => {
            let m = crate::last_panic();
            return Some(Verdict { sig: format!("parse-panic:{}", crate::panic_site(&m)), desc: format!("Frame::parse panicked ({}) on input {}", m, show(buf)) });
        }
    };
    let first = buf.first().map(|b| if b"+-:$*".contains(b) { *b as char } else { '?' }).unwrap_or('e');
    match &prs_res {
        Ok(f) => {
            st.frames += 1;
            kinds.insert(format!("parse:{}:frame", first));
            match ref_parse(buf) {
                RefOut::Frame(rf, rlen) => {
                    let got = from_impl(f);
                    if got != rf {
                        let sig = if matches!((&got, &rf), (RFrame::Int(_), RFrame::Int(_))) { "integer-misread" } else { "frame-differs-from-reference" };
                        return Some(Verdict { sig: sig.into(), desc: format!("input {}: parse returned {} but the bytes say {}", show(buf), brief(&got), brief(&rf)) });
                    }
                    if prs_pos != rlen {
                        return Some(Verdict { sig: "length-differs-from-reference".into(), desc: format!("input {}: parse consumed {} bytes, the frame is {} bytes long", show(buf), prs_pos, rlen) });
                    }
                }
                RefOut::Incomplete => return Some(Verdict { sig: "accepted-an-incomplete-frame".into(), desc: format!("input {}: parse returned {} although the frame is incomplete", show(buf), brief(&from_impl(f))) }),
                RefOut::Reject => {
                    let got = from_impl(f);
                    let sig = if contains_number_problem(buf) { "out-of-range-number-accepted" } else { "accepted-what-reference-rejects" };
                    return Some(Verdict { sig: sig.into(), desc: format!("input {}: parse returned {} for bytes that are not a valid frame", show(buf), brief(&got)) });
                }
            }
        }
        Err(FErr::Incomplete) => {
            st.incomplete += 1;
            kinds.insert(format!("parse:{}:incomplete", first));
        }
        Err(e) => {
            st.errors += 1;
            let k = match e {
                FErr::BadEncoding => "bad-encoding",
                FErr::NotInteger(_) => "not-integer",
                FErr::NotUtf8(_) => "not-utf8",
                FErr::Incomplete => "incomplete",
            };
            kinds.insert(format!("parse:{}:{}", first, k));
        }
    }
    // check accepted n bytes: parse must not succeed with another length (on the whole buffer, as
    // Connection does it, and on exactly those n bytes)
    if chk_res.is_ok() {
        kinds.insert(format!("check:{}:ok", first));
        if prs_res.is_ok() && prs_pos != chk_pos {
            return Some(Verdict { sig: "check-and-parse-disagree-on-length".into(), desc: format!("input {}: check accepted {} bytes, parse succeeded with {}", show(buf), chk_pos, prs_pos) });
        }
        if chk_pos <= buf.len() && chk_pos != buf.len() {
            let sub = &buf[..chk_pos];
            let p2 = std::panic::catch_unwind(|| {
                let mut c = Cursor::new(sub);
                let r = Frame::parse(&mut c);
                (r.is_ok(), c.position() as usize)
            });
            match p2 {
                Ok((true, pos)) if pos != chk_pos => {
                    return Some(Verdict { sig: "check-and-parse-disagree-on-length".into(), desc: format!("input {}: check accepted {} bytes, parsing exactly those succeeded with {}", show(buf), chk_pos, pos) })
                }
                Ok(_) => {}
                Err(_) => {
                    let m = crate::last_panic();
                    return Some(Verdict { sig: format!("parse-panic:{}", crate::panic_site(&m)), desc: format!("Frame::parse panicked ({}) on the {} bytes check accepted of {}", m, chk_pos, show(buf)) });
                }
            }
        }
    } else if let Err(e) = &chk_res {
        if *e != FErr::Incomplete {
            kinds.insert(format!("check:{}:error", first));
        }
    }
    None
}

fn contains_number_problem(buf: &[u8]) -> bool {
    // a run of 19+ digits somewhere
    let mut run = 0;
    for b in buf {
        if b.is_ascii_digit() {
            run += 1;
            if run >= 19 {
                return true;
            }
        } else {
            run = 0;
        }
    }
    false
}

fn report(ctx: &Ctx, out: &mut Out, case: u64, buf: &[u8], v: Verdict) {
    out.violation(&v.sig, v.desc, ctx.replay(case, json!({"input_hex": buf.iter().map(|b| format!("{:02x}", b)).collect::<String>()})));
}

/// Numbers at every buffer offset 1..64, with the magnitudes where arithmetic goes wrong.
fn number_inputs() -> Vec<Vec<u8>> {
    let mags: Vec<String> = {
        let mut v: Vec<String> = Vec::new();
        for s in [
            "0", "1", "9", "10", "99999", "123456789012345678", "999999999999999999", "1000000000000000000", "9223372036854775806", "9223372036854775807", "9223372036854775808", "9223372036854775809", "9999999999999999999",
            "10000000000000000000", "18446744073709551615", "18446744073709551616", "18446744073709551621", "36893488147419103232", "99999999999999999999", "100000000000000000000", "340282366920938463463374607431768211456",
            "00000000000000000000000001", "000000000000000000009223372036854775807", "000000000000000000009223372036854775808", "",
        ] {
            v.push(s.to_string());
        }
        // long digit strings (19..40 digits, fixed pseudo-random): whether an accumulator that has
        // wrapped looks small again depends on the digits, a handful of round values does not tell
        let mut x = 0x9E3779B97F4A7C15u64;
        for i in 0..400u64 {
            let len = 19 + (i % 22) as usize;
            let mut d = String::new();
            for j in 0..len {
                x ^= x << 13;
                x ^= x >> 7;
                x ^= x << 17;
                let c = (x % 10) as u8;
                d.push((b'0' + if j == 0 && c == 0 { 1 } else { c }) as char);
            }
            v.push(d);
        }
        // multiples of 2^64 and their neighbours: the wrapped value is 0, 1, 5 ...
        for k in ["184467440737095516160", "184467440737095516165", "1844674407370955161601", "55340232221128654848", "55340232221128654849", "18446744073709551616000000"] {
            v.push(k.to_string());
        }
        v
    };
    let n_fixed = 25usize;
    let mut out = Vec::new();
    for sign in ["", "-", "+"] {
        for (mi, m) in mags.iter().enumerate() {
            let num = format!("{}{}", sign, m);
            for t in [b':', b'$', b'*'] {
                for pad in 0..64usize {
                    // the long pseudo-random strings only at a few offsets (the table is large already)
                    if mi >= n_fixed && !matches!(pad, 0 | 7 | 19 | 20 | 33) {
                        continue;
                    }
                    // the number is element k of an array whose earlier elements take `pad` bytes
                    let mut buf = Vec::new();
                    if pad == 0 {
                        buf.push(t);
                        buf.extend_from_slice(num.as_bytes());
                        buf.extend_from_slice(b"\r\n");
                    } else {
                        // "*2\r\n" (4) + "+" filler "\r\n" (pad - 4 >= 3)
                        if pad < 7 {
                            continue;
                        }
                        buf.extend_from_slice(b"*2\r\n+");
                        buf.extend(std::iter::repeat(b'x').take(pad - 7));
                        buf.extend_from_slice(b"\r\n");
                        buf.push(t);
                        buf.extend_from_slice(num.as_bytes());
                        buf.extend_from_slice(b"\r\n");
                    }
                    if t == b'$' {
                        // give small bulk lengths their payload
                        if let Ok(n) = m.parse::<usize>() {
                            if n <= 16 && sign != "-" {
                                buf.extend(std::iter::repeat(b'p').take(n));
                                buf.extend_from_slice(b"\r\n");
                            }
                        }
                    }
                    out.push(buf.clone());
                    // and every truncation of the tail (lone signs, missing terminators)
                    for cut in 1..=(num.len() + 2).min(buf.len()) {
                        out.push(buf[..buf.len() - cut].to_vec());
                    }
                }
            }
        }
    }
    out
}

fn nested(depth: usize, leaf: &[u8]) -> Vec<u8> {
    let mut v = Vec::with_capacity(depth * 4 + leaf.len());
    for _ in 0..depth {
        v.extend_from_slice(b"*1\r\n");
    }
    v.extend_from_slice(leaf);
    v
}

/// In-process reduced run for `cargo miri run`: returns (evaluations, violations).
pub fn miri_run(seed: u64, cases: u64) -> (u64, Vec<String>) {
    let mut st = Stats::default();
    let mut kinds = std::collections::BTreeSet::new();
    let mut n = 0u64;
    let mut v = Vec::new();
    let mut feed = |buf: &[u8], v: &mut Vec<String>| {
        n += 1;
        if let Some(x) = judge(buf, &mut st, &mut kinds) {
            v.push(format!("[{}] {}", x.sig, x.desc));
        }
    };
    for case in 0..cases {
        let mut r = Rng::derive(seed, 0xC07_0000_0000 ^ case);
        let mut f = gen_frame(&mut r, 1);
        let mut enc = encode(&f);
        for _ in 0..10 {
            if enc.len() <= 80 {
                break;
            }
            f = gen_frame(&mut r, 2);
            enc = encode(&f);
        }
        if enc.len() > 80 {
            continue;
        }
        feed(&enc, &mut v);
        for i in (0..enc.len()).step_by(2) {
            feed(&enc[..i], &mut v);
        }
        for _ in 0..3 {
            let mut m = enc.clone();
            let p = r.usize_below(m.len().max(1));
            m[p] = *r.pick(ALPHABET);
            feed(&m, &mut v);
        }
    }
    // a handful of numbers past buffer offset 18 (building the full table is too slow under Miri)
    for num in ["9223372036854775807", "9223372036854775808", "-9223372036854775808", "-9223372036854775809", "18446744073709551621", "000000000000000000001", "+12", "-", ""] {
        for t in [b':', b'$', b'*'] {
            let mut buf = b"*2\r\n+xxxxxxxxxxxxxxxxxxxx\r\n".to_vec();
            buf.push(t);
            buf.extend_from_slice(num.as_bytes());
            buf.extend_from_slice(b"\r\n");
            feed(&buf, &mut v);
            feed(&buf[..buf.len() - 2], &mut v);
        }
    }
    for d in [1usize, 8, 31, 32, 33, 34, 40] {
        feed(&nested(d, b":1\r\n"), &mut v);
        feed(&nested(d, b""), &mut v);
    }
    for b in [&b":-"[..], b"$-", b"*-", b"$+", b"*9223372036854775807\r\n", b"$9223372036854775807\r\n", b"*2\r\n$3\r\nGET\r\n$18446744073709551621\r\nk\r\n"] {
        feed(b, &mut v);
    }
    (n, v)
}

fn on_small_stack<T: Send + 'static>(f: impl FnOnce() -> T + Send + 'static) -> std::thread::Result<T> {
    std::thread::Builder::new().stack_size(2 * 1024 * 1024).spawn(f).expect("spawn").join()
}

fn worker(ctx: &Ctx, out: &mut Out) {
    // replay of one saved input
    if let Some(h) = ctx.detail.get("input_hex").and_then(|v| v.as_str()) {
        let buf: Vec<u8> = (0..h.len() / 2).map(|i| u8::from_str_radix(&h[2 * i..2 * i + 2], 16).unwrap_or(0)).collect();
        out.evaluations += 1;
        let b2 = buf.clone();
        let v = on_small_stack(move || {
            let mut st2 = Stats::default();
            let mut k2 = std::collections::BTreeSet::new();
            judge(&b2, &mut st2, &mut k2).map(|v| (v.sig, v.desc))
        });
        if let Ok(Some((sig, desc))) = v {
            out.violation(&sig, desc, json!({}));
        }
        return;
    }
    if let (Some(d), true) = (ctx.only_case, ctx.mode == "deep") {
        // replay of a nesting depth: dying here is the reproduction
        let buf = nested(d as usize, b":1\r\n");
        let _ = on_small_stack(move || {
            let mut c = Cursor::new(&buf[..]);
            let _ = Frame::check(&mut c);
            let mut c = Cursor::new(&buf[..]);
            let _ = Frame::parse(&mut c);
        });
        return;
    }
    let ctx2 = ctx.clone();
    let mode = ctx.mode.clone();
    let res = on_small_stack(move || {
        let ctx = &ctx2;
        let mut out = Out::default();
        let mut st = Stats::default();
        let mut kinds = std::collections::BTreeSet::new();
        match mode.as_str() {
            "gen" => {
                let total = ctx.tier.pick(400_000u64, 12_000_000);
                for case in ctx.cases(total) {
                    if case % 512 == 0 {
                        ctx.breadcrumb(case, "generated frames");
                    }
                    let mut r = Rng::derive(ctx.seed, 0xC07_0000_0000 ^ case);
                    let f = gen_frame(&mut r, 0);
                    let enc = encode(&f);
                    let mut inputs: Vec<Vec<u8>> = vec![enc.clone()];
                    // every truncation point (long encodings: a sample of them)
                    if enc.len() <= 400 {
                        for i in 0..enc.len() {
                            inputs.push(enc[..i].to_vec());
                        }
                    } else {
                        for _ in 0..200 {
                            inputs.push(enc[..r.usize_below(enc.len())].to_vec());
                        }
                    }
                    // single-byte corruptions
                    for _ in 0..12 {
                        let mut m = enc.clone();
                        if m.is_empty() {
                            break;
                        }
                        let p = r.usize_below(m.len().min(64).max(1));
                        m[p] = *r.pick(ALPHABET);
                        inputs.push(m);
                    }
                    // trailing bytes after a complete frame
                    let mut t = enc.clone();
                    t.extend_from_slice(&encode(&gen_frame(&mut r, 2)));
                    inputs.push(t);
                    // random strings over the alphabet
                    for _ in 0..8 {
                        let n = r.range(1, 40) as usize;
                        inputs.push((0..n).map(|_| *r.pick(ALPHABET)).collect());
                    }
                    for buf in inputs {
                        out.evaluations += 1;
                        let before = (st.frames, st.errors);
                        if let Some(v) = judge(&buf, &mut st, &mut kinds) {
                            report(ctx, &mut out, case, &buf, v);
                        }
                        if (st.frames, st.errors) != before {
                            out.class(format!("{:016x}", crate::orch::fnv(&buf)));
                        }
                    }
                    if out.samples.len() < 3 && (case % 1777 == 5 || out.samples.is_empty()) {
                        out.sample(json!({"frame": brief(&f), "encoding": show(&enc), "derived_inputs": "all truncations, 12 corruptions, trailing frame, 8 random strings"}));
                    }
                }
            }
            "numbers" => {
                let inputs = number_inputs();
                let mut offsets = std::collections::BTreeSet::new();
                for (i, buf) in inputs.iter().enumerate() {
                    if i % 4096 == 0 {
                        ctx.breadcrumb(i as u64, "numbers at offsets");
                    }
                    out.evaluations += 1;
                    let before = (st.frames, st.errors);
                    if let Some(v) = judge(buf, &mut st, &mut kinds) {
                        report(ctx, &mut out, i as u64, buf, v);
                    }
                    if (st.frames, st.errors) != before {
                        out.class(format!("{:016x}", crate::orch::fnv(buf)));
                    }
                    if let Some(p) = buf.iter().rposition(|b| b":$*".contains(b)) {
                        offsets.insert(p + 1);
                    }
                }
                out.count("number_inputs", inputs.len() as u64);
                out.count("distinct_number_offsets", offsets.len() as u64);
                out.max("highest_number_offset", offsets.iter().last().cloned().unwrap_or(0) as u64);
                out.sample(json!({"number_input_example": show(&inputs[inputs.len() / 2]), "offsets": "1 and 8..64", "magnitudes": "0 .. 2^128, leading zeros, lone signs, every truncation of the tail"}));
            }
            "deep" => {
                // each depth on its own: the process dying here is a stack overflow in the parser
                let depths: Vec<usize> = ctx.tier.pick(vec![10, 100, 1000, 5000, 20_000, 100_000, 300_000], vec![10, 100, 1000, 5000, 20_000, 50_000, 100_000, 200_000, 500_000, 1_000_000]);
                for d in depths {
                    for (leaf, what) in [(&b":1\r\n"[..], "complete"), (&b""[..], "incomplete")] {
                        let buf = nested(d, leaf);
                        let crumb = ctx.out_path.with_extension("cur");
                        let _ = std::fs::write(&crumb, format!("{}\nnesting depth {} ({})\n", d, d, what));
                        // checkpoint results first: if we die, what was learned so far survives
                        let _ = std::fs::write(&ctx.out_path, serde_json::to_vec(&out.to_json()).unwrap());
                        out.evaluations += 1;
                        if let Some(v) = judge(&buf, &mut st, &mut kinds) {
                            // comparing deep frames recursively is itself deep; only report panics etc.
                            report(ctx, &mut out, d as u64, &buf[..buf.len().min(64)], v);
                        }
                        out.max("deepest_nesting_survived", d as u64);
                        out.class(format!("depth-{}-{}", d, what));
                    }
                }
            }
            "alloc" => {
                // absurd lengths: with an address-space limit a blind pre-allocation kills the process
                let lim = libc::rlimit { rlim_cur: 3 << 30, rlim_max: 3 << 30 };
                unsafe { libc::setrlimit(libc::RLIMIT_AS, &lim) };
                let mut inputs: Vec<Vec<u8>> = Vec::new();
                for n in ["2147483647", "4294967296", "99999999999", "576460752303423487", "576460752303423488", "1152921504606846976", "4611686018427387904", "9223372036854775807"] {
                    inputs.push(format!("*{}\r\n", n).into_bytes());
                    inputs.push(format!("*{}\r\n:1\r\n", n).into_bytes());
                    inputs.push(format!("${}\r\n", n).into_bytes());
                    inputs.push(format!("${}\r\nabc\r\n", n).into_bytes());
                    inputs.push(format!("*2\r\n$3\r\nGET\r\n${}\r\n", n).into_bytes());
                    inputs.push(format!("*1\r\n*{}\r\n", n).into_bytes());
                }
                for (i, buf) in inputs.iter().enumerate() {
                    let crumb = ctx.out_path.with_extension("cur");
                    let _ = std::fs::write(&crumb, format!("{}\nabsurd length input {}\n", i, show(buf)));
                    let _ = std::fs::write(&ctx.out_path, serde_json::to_vec(&out.to_json()).unwrap());
                    out.evaluations += 1;
                    if let Some(v) = judge(buf, &mut st, &mut kinds) {
                        report(ctx, &mut out, i as u64, buf, v);
                    }
                    out.class(format!("alloc-{:016x}", crate::orch::fnv(buf)));
                }
                out.count("absurd_length_inputs", inputs.len() as u64);
            }
            _ => {}
        }
        out.count("parse_returned_frame", st.frames);
        out.count("parse_returned_error", st.errors);
        out.count("parse_returned_incomplete", st.incomplete);
        for k in kinds {
            out.class_counter(&k);
        }
        out
    });
    match res {
        Ok(o) => out.merge(o),
        Err(_) => out.inconclusive.push(format!("harness thread panicked: {}", crate::last_panic())),
    }
}

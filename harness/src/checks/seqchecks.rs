//! C02, C05, C12, C13, C19 - single-threaded histories with reopen cycles and merges, each with its
//! own oracle on top of the shared engine.

use std::time::Instant;

use serde_json::json;

use super::{ncpu, secs, standard_run, Check};
use crate::orch::{even_plans, show, CheckSpec, Ctx, Out, Tier};
use crate::rng::Rng;
use crate::scan;
use crate::seqeng::{check_accounting, draw_conf, draw_keys, fail, Eng, Fail};
use crate::store::{copy_dir, draw_thresholds, fresh_dir, Conf, Store};

#[derive(Clone, Copy, PartialEq, Eq)]
enum Focus {
    C02,
    C05,
    C12,
    C13,
    C19,
}

impl Focus {
    fn tag(self) -> u64 {
        match self {
            Focus::C02 => 0xC02,
            Focus::C05 => 0xC05,
            Focus::C12 => 0xC12,
            Focus::C13 => 0xC13,
            Focus::C19 => 0xC19,
        }
    }
    fn of(id: &str) -> Focus {
        match id {
            "C02" => Focus::C02,
            "C05" => Focus::C05,
            "C12" => Focus::C12,
            "C13" => Focus::C13,
            _ => Focus::C19,
        }
    }
}

pub fn check(id: &'static str) -> Check {
    let (rule, assumptions): (&'static str, Vec<&'static str>) = match id {
        "C02" => (
            "one case = one generated history of set/del/get (no merges) over 2-9 keys with max_file_size drawn so that the history spans 1..250 data files (ids pass 9->10 and 99->100), interrupted by close/reopen cycles (1-4 in a row, configuration redrawn); after every reopen every key of the universe and a never-written key are read and compared with the map model. Non-trivial = at least one reopen happened while some key's newest record was a tombstone, a key was overwritten, and the directory held more than one data file; distinct = by hash of (configuration, keys, op sequence).",
            vec!["close = dropping the owning Bitcask object", "no crash (C03), no merge (C05)"],
        ),
        "C05" => (
            "one case = one generated history with merge passes at random positions and 1-3 reopen cycles after them; merge thresholds are redrawn at every (re)open from 8 families so that merges select all files, none, only fragmented ones, only small ones, ...; every key is read before the merge (model-checked by the engine), right after it, and after every following reopen. Non-trivial = a merge removed files while keeping an older non-empty file (partial selection) or dropped tombstones, and a reopen followed it; distinct = by hash of (configuration, keys, op sequence).",
            vec!["merge passes are driven through the verif_merge hook (same private merge())"],
        ),
        "C12" => (
            "one case = one generated history containing merges; at random quiescent points after a merge the store is closed and its directory copied twice, once as is and once with every *.hint removed; both copies are opened with the real code and every key of the universe plus a never-written key must read the same in both. Non-trivial = the compared directory really held a non-empty hint file; distinct = by hash of the history up to the comparison.",
            vec!["agreement between the two recoveries is all that is judged here (agreement with the model is C05)"],
        ),
        "C13" => (
            "one case = one generated history with merges; total *.data size is measured before and after every merge (must not grow); when the thresholds make every non-empty file eligible the total must equal the sum of record sizes of the live pairs, equal the size of a reference store built by the real code from only the live pairs, the independent scanner must find each live key exactly once and nothing else, and a second merge must leave sizes and reads unchanged. Non-trivial = a merge that removed at least one file holding dead data; distinct = by hash of the history up to the merge.",
            vec!["record size computed by the independent scanner's format description"],
        ),
        _ => (
            "one case = one generated history (sets, deletes of present and absent keys, merges of every threshold family, reopen cycles that rebuild from data files and from hint files); at quiescent points the verif_dump snapshot (index + per-file live/dead/dead-bytes counters) is compared with an independent scan of the data files: the index must name exactly the model's keys and point at records holding the model's values, and each file's counters must equal the counts derived from the scan (missing counter entry = zeros). Non-trivial = snapshots compared after an overwrite across files, a delete, a merge and a reopen; distinct = by hash of the history.",
            vec!["verif_dump takes the writer lock and copies the private maps; it is read-only"],
        ),
    };
    Check { spec: CheckSpec { id, level: "exploration", rule, assumptions, death_is_violation: true }, timing_dependent: false, run, worker }
}

fn total_cases(f: Focus, t: Tier) -> u64 {
    match f {
        Focus::C02 => t.pick(8_000, 240_000),
        Focus::C05 => t.pick(12_000, 300_000),
        Focus::C12 => t.pick(6_000, 160_000),
        Focus::C13 => t.pick(15_000, 400_000),
        Focus::C19 => t.pick(20_000, 400_000),
    }
}

fn run(c: &Check, tier: Tier, seed: u64, t0: Instant) -> i32 {
    let n = ncpu() as u64;
    standard_run(c, tier, seed, t0, even_plans("", n, secs(tier.pick(900, 10_800))), n as usize, 20)
}

fn redraw_conf(r: &mut Rng, f: Focus) -> (Conf, &'static str) {
    let mut c = draw_conf(r);
    if f == Focus::C02 {
        // many files: ids must pass 9 -> 10 and 99 -> 100
        c.max_file_size = *r.pick(&[0u64, 0, 1, 40, 64, 120, 300, 1000, 4096, 2 * 1024 * 1024 * 1024]);
    }
    let thr = draw_thresholds(r, &mut c);
    (c, thr)
}

/// C12: recover a copy with and a copy without hint files and compare key by key.
fn compare_hint_recovery(e: &mut Eng, ctx: &Ctx, case: u64, out: &mut Out) -> Result<(), Fail> {
    e.trace.push("close+compare-hint-recovery".into());
    e.close();
    let hints = scan::scan_dir(&e.dir);
    let hint_entries: u64 = hints.values().filter_map(|f| f.hint.as_ref()).map(|h| h.0.len() as u64).sum();
    let hint_files = hints.values().filter(|f| f.hint.is_some()).count() as u64;
    if std::env::var_os("BCVERIF_VERBOSE").is_some() {
        for (id, f) in &hints {
            eprintln!("   file {} size {} recs {:?} tail {:?} hint {:?}", id, f.size, f.recs.iter().map(|r| (r.pos, r.len, show(&r.key), r.value.as_ref().map(|v| v.len()))).collect::<Vec<_>>(), f.tail, f.hint.as_ref().map(|h| (h.0.iter().map(|x| (x.pos, x.len, show(&x.key))).collect::<Vec<_>>(), h.2)));
        }
    }
    let a = ctx.scratch.join(format!("c{}-with", case));
    let b = ctx.scratch.join(format!("c{}-without", case));
    copy_dir(&e.dir, &a, None);
    copy_dir(&e.dir, &b, Some(".hint"));
    let res = (|| -> Result<(), Fail> {
        // an open that fails only with, or only without, the hint files is a difference between the
        // two recoveries like any other; one that fails both ways is not this comparison's subject
        let (sa, sb) = match (Store::open(&a, &e.conf), Store::open(&b, &e.conf)) {
            (Ok(sa), Ok(sb)) => (sa, sb),
            (Err(x), Ok(_)) => return fail("hint-recovery-differs", format!("the directory opens when its {} hint files are removed, but with them open fails: {}", hint_files, x)),
            (Ok(_), Err(x)) => return fail("hint-recovery-differs", format!("the directory opens with its {} hint files, but once they are removed open fails: {}", hint_files, x)),
            (Err(x), Err(_)) => return fail("open-failed", format!("open failed with and without hint files: {}", x)),
        };
        let mut keys = e.keys.clone();
        keys.push(b"\x01never-written\x02".to_vec());
        for k in &keys {
            let ga = sa.get(k);
            let gb = sb.get(k);
            if ga != gb {
                let d = |g: &Result<Option<Vec<u8>>, crate::store::OpErr>| match g {
                    Ok(Some(v)) => format!("{}B:{}", v.len(), show(v)),
                    Ok(None) => "nothing".to_string(),
                    Err(x) => format!("error {:?}", x),
                };
                return fail("hint-recovery-differs", format!("key {} reads {} when recovered from hint files but {} when recovered by scanning the data files ({} hint files)", show(k), d(&ga), d(&gb), hint_files));
            }
            out.count("keys_compared", 1);
        }
        Ok(())
    })();
    let _ = std::fs::remove_dir_all(&a);
    let _ = std::fs::remove_dir_all(&b);
    out.count("directory_pairs_compared", 1);
    out.evaluations += 1;
    out.count("hint_files_present", hint_files);
    out.count("hint_entries_read", hint_entries);
    if hint_entries > 0 {
        out.count("pairs_with_nonempty_hint", 1);
        out.class(format!("{:016x}", e.trace_hash()));
    }
    res?;
    e.open()
}

/// C13: everything the property says about one merge.
fn merge_with_size_oracle(e: &mut Eng, ctx: &Ctx, case: u64, out: &mut Out) -> Result<(), Fail> {
    let before = scan::scan_dir(&e.dir);
    let dead_before: u64 = {
        let truth = scan::truth_from_scan(&before);
        before.iter().map(|(id, f)| f.recs.iter().filter(|r| truth.get(&r.key).map(|l| !(l.fileid == *id && l.pos == r.pos)).unwrap_or(true)).count() as u64).sum()
    };
    // which files are eligible, computed here from the files themselves by the documented rule
    // (dead bytes above the threshold, or fragmentation above the threshold, or size below the
    // small-file threshold), not taken from the store
    let all_eligible = {
        let truth = scan::truth_from_scan(&before);
        let mut any = false;
        let mut all = true;
        for (id, f) in &before {
            if f.recs.is_empty() {
                continue;
            }
            any = true;
            let (mut live, mut dead, mut dead_bytes) = (0u64, 0u64, 0u64);
            for r in &f.recs {
                if truth.get(&r.key).map(|l| l.fileid == *id && l.pos == r.pos).unwrap_or(false) {
                    live += 1;
                } else {
                    dead += 1;
                    dead_bytes += r.len;
                }
            }
            let frag = if dead == 0 { 0.0 } else { dead as f64 / (dead as f64 + live as f64) };
            let eligible = dead_bytes > e.conf.thr_dead || frag > e.conf.thr_frag || f.size < e.conf.thr_small;
            if !eligible {
                all = false;
            }
        }
        any && all
    };
    let info = e.do_merge()?;
    out.count("merges", 1);
    out.evaluations += 1;
    if info.size_after > info.size_before {
        return fail("merge-grew-store", format!("merge grew the data files from {} to {} bytes (files before {:?}, after {:?})", info.size_before, info.size_after, info.before, info.after));
    }
    out.count("bytes_reclaimed", info.size_before - info.size_after);
    e.check_all("after merge")?;
    if all_eligible && e.conf.thr_small != u64::MAX {
        out.count("all_eligible_merges_by_dead_bytes_or_fragmentation", 1);
    }
    if !info.removed.is_empty() && dead_before > 0 {
        out.class(format!("{:016x}", e.trace_hash()));
    }
    if all_eligible {
        out.count("all_eligible_merges", 1);
        let want: u64 = e.model.iter().map(|(k, v)| scan::rec_size(k, Some(v))).sum();
        if info.size_after != want {
            return fail("merge-not-minimal", format!("every file was eligible, yet the data files total {} bytes after the merge while the live pairs need exactly {} (before: {} bytes in {:?})", info.size_after, want, info.size_before, info.before));
        }
        // each live key exactly once and nothing else
        let after = scan::scan_dir(&e.dir);
        let mut seen = std::collections::HashMap::new();
        for (id, f) in &after {
            if f.tail != scan::Tail::Clean {
                return fail("merge-output-malformed", format!("data file {} does not end on a record boundary after merge: {:?}", id, f.tail));
            }
            for r in &f.recs {
                *seen.entry(r.key.clone()).or_insert(0u32) += 1;
                match (&r.value, e.model.get(&r.key)) {
                    (Some(v), Some(m)) if v == m => {}
                    _ => return fail("merge-kept-dead-data", format!("after an all-eligible merge file {} still holds a record of key {} that is not the live value", id, show(&r.key))),
                }
            }
        }
        for k in e.model.keys() {
            if seen.get(k).cloned().unwrap_or(0) != 1 {
                return fail("merge-not-once", format!("after an all-eligible merge key {} is stored {} times", show(k), seen.get(k).cloned().unwrap_or(0)));
            }
        }
        // reference store built by the real code from only the live pairs
        if e.r.chance(1, 3) {
            let refdir = fresh_dir(&ctx.scratch, &format!("c{}-ref", case));
            let mut pairs: Vec<(&Vec<u8>, &Vec<u8>)> = e.model.iter().collect();
            pairs.sort();
            let rs = Store::open(&refdir, &e.conf).map_err(|x| Fail { sig: "open-failed".into(), desc: x })?;
            for (k, v) in pairs {
                rs.set(k, v).map_err(|x| Fail { sig: "set-error".into(), desc: format!("{:?}", x) })?;
            }
            drop(rs);
            let refsize = scan::total_data_size(&refdir);
            let _ = std::fs::remove_dir_all(&refdir);
            out.count("reference_stores_built", 1);
            if refsize != info.size_after {
                return fail("merge-differs-from-fresh-store", format!("after an all-eligible merge the data files total {} bytes, a fresh store holding the same live pairs takes {}", info.size_after, refsize));
            }
        }
        // repeating the merge changes nothing further
        let again = e.do_merge()?;
        out.count("repeat_merges", 1);
        if again.size_after != info.size_after {
            return fail("repeat-merge-changed-size", format!("a second merge changed the total from {} to {} bytes", info.size_after, again.size_after));
        }
        e.check_all("after repeated merge")?;
    }
    Ok(())
}

fn episode(ctx: &Ctx, f: Focus, case: u64, out: &mut Out) -> Result<(), (Fail, String)> {
    let mut r = Rng::derive(ctx.seed, (f.tag() << 40) ^ case);
    let (conf, thr) = redraw_conf(&mut r, f);
    let huge = f != Focus::C02 || r.chance(1, 3);
    let keys = draw_keys(&mut r, false, huge);
    let nops = match f {
        Focus::C02 => r.range(20, 260),
        Focus::C19 => r.range(20, 160),
        _ => r.range(30, 220),
    };
    let merge_pct: u64 = match f {
        Focus::C02 => 0,
        Focus::C05 | Focus::C12 => *r.pick(&[3u64, 6, 10]),
        Focus::C13 => *r.pick(&[4u64, 8]),
        Focus::C19 => *r.pick(&[0u64, 3, 8]),
    };
    let reopen_pct: u64 = match f {
        Focus::C02 => *r.pick(&[2u64, 5, 10]),
        Focus::C05 => *r.pick(&[1u64, 3]),
        Focus::C12 => 1,
        Focus::C13 => *r.pick(&[0u64, 1]),
        Focus::C19 => *r.pick(&[0u64, 2, 5]),
    };
    let big_ok = f != Focus::C02 || r.chance(1, 4);
    let dir = fresh_dir(&ctx.scratch, &format!("c{}", case));
    let mut e = Eng::new(r, &dir, conf, thr, keys, big_ok);
    e.huge_ok = case % 8 == 5 && f != Focus::C19;
    // C02, an eighth of the episodes: the local time zone of the process changes at every reopen
    // (a machine that moves, daylight saving time ending)
    e.tz_walk = f == Focus::C02 && case % 8 == 1;
    if e.tz_walk {
        out.count("episodes_with_a_time_zone_change_at_every_reopen", 1);
    }
    // an eighth of the episodes on a file system that completes some writes only partly (not those
    // that arm a fault of their own)
    // another eighth (C02, C05, C19): now and then a set or delete in which one call on a data file
    // fails; the key may then be in either state until it is written again (Eng::do_faulty_op)
    let faulty = matches!(f, Focus::C02 | Focus::C05 | Focus::C19) && case % 8 == 3 && case % 5 != 2;
    if faulty {
        out.count("episodes_with_failing_operations", 1);
    }
    let short = if case % 8 == 6 && case % 5 != 2 { Some(crate::shim::short_env(&dir, ctx.seed ^ case)) } else { None };
    let mut snapshots = 0u64;
    let mut snapshots_after_hint_rebuild = 0u64;
    let mut merged_since_reopen = false;
    let mut reopened_after_merge = false;
    let mut rebuilt_from_hint = false;
    let res = (|| -> Result<(), Fail> {
        e.open()?;
        if f == Focus::C12 && case % 8 == 1 {
            // a directory that is not the store's alone: an empty file named like a hint file with an
            // id the store has not reached yet (left by something else). The store may trip over it
            // when a merge wants that name (not C12's subject), but when a data file of that id
            // comes to exist the empty hint must not stand for it
            let id = *e.r.pick(&[2u64, 2, 4, 6]);
            let _ = std::fs::write(e.dir.join(format!("{}.bitcask.hint", id)), b"");
            out.count("episodes_with_a_foreign_empty_hint_file", 1);
        }
        for step in 0..nops {
            let x = e.r.below(100);
            if x < merge_pct {
                match f {
                    Focus::C13 => merge_with_size_oracle(&mut e, ctx, case, out)?,
                    Focus::C12 if case % 5 == 2 && e.r.chance(1, 2) => {
                        // a merge during which one call on a hint file fails (create, write or
                        // fsync): whatever the merge makes of that, the closed store must still
                        // recover the same with and without its hint files
                        e.trace.push("merge with a failing hint-file call".into());
                        crate::shim::log_reset();
                        crate::shim::record_data(false);
                        crate::shim::watch(Some(&e.dir));
                        let nth = e.r.below(8) as i64;
                        crate::shim::fail(crate::shim::C_WRITE | crate::shim::C_CREATE | crate::shim::C_FSYNC, crate::shim::F_HINT, nth, libc::ENOSPC);
                        let res = e.st().merge();
                        let hit = crate::shim::fail_hit().is_some();
                        crate::shim::fail_off();
                        crate::shim::watch(None);
                        if std::env::var_os("BCVERIF_VERBOSE").is_some() {
                            eprintln!("merge with failing hint call -> {:?}", res);
                            for ev in crate::shim::take_log(&e.dir, false) {
                                if ev.kind != crate::shim::K_CLOSE && ev.kind != crate::shim::K_MMAP {
                                    eprintln!("   {}", ev.brief());
                                }
                            }
                        }
                        crate::shim::log_reset();
                        out.count(if hit { "merges_with_a_failed_hint_call" } else { "merges_armed_but_fault_not_reached" }, 1);
                        let _ = res;
                        e.check_all("after a merge with a failing hint-file call")?;
                        compare_hint_recovery(&mut e, ctx, case, out)?;
                    }
                    Focus::C19 | Focus::C05 if case % 5 == 2 && e.r.chance(1, 2) => {
                        // a merge during which one call fails (create, write, fsync or unlink, on a
                        // data or a hint file). It is still a crash-free history: the bookkeeping
                        // has to be true after the merge was given up, and again after the next
                        // open has rebuilt it from whatever files the merge left behind
                        e.trace.push("merge with one failing call".into());
                        crate::shim::log_reset();
                        crate::shim::record_data(false);
                        crate::shim::watch(Some(&e.dir));
                        let nth = e.r.below(14) as i64;
                        crate::shim::fail(crate::shim::C_WRITE | crate::shim::C_CREATE | crate::shim::C_FSYNC | crate::shim::C_UNLINK, crate::shim::F_ANY, nth, if e.r.chance(1, 2) { libc::ENOSPC } else { libc::EIO });
                        let res = e.st().merge();
                        let hit = crate::shim::fail_hit().is_some();
                        crate::shim::fail_off();
                        crate::shim::watch(None);
                        crate::shim::log_reset();
                        out.count(if hit { "merges_with_a_failed_call" } else { "merges_armed_but_fault_not_reached" }, 1);
                        let _ = res;
                        e.check_all("after a merge with a failing call")?;
                        if f == Focus::C05 {
                            // C05: a compaction that was given up changes no more than one that
                            // completed; the episode goes on writing and reopens later as usual
                            merged_since_reopen = true;
                        } else {
                            let (files, _) = check_accounting(&e, "after a merge with a failing call")?;
                            out.count("files_compared", files);
                            e.do_reopen(None)?;
                            e.check_all("after a merge with a failing call and a reopen")?;
                            let (files, _) = check_accounting(&e, "after a merge with a failing call and a reopen")?;
                            out.count("files_compared", files);
                            snapshots += 2;
                            if hit {
                                out.count("snapshots_after_a_failed_merge_and_reopen", 1);
                            }
                        }
                    }
                    _ => {
                        e.check_all("before merge")?;
                        let info = e.do_merge()?;
                        e.check_all("after merge")?;
                        if !info.removed.is_empty() {
                            out.class_counter(&format!("sel:{}", if info.pattern.len() <= 10 { info.pattern.clone() } else { format!("{}..{}", &info.pattern[..6], info.pattern.len()) }));
                            merged_since_reopen = true;
                        }
                        if f == Focus::C05 && e.r.chance(1, 2) {
                            // the property's own sequence: merge, then 1-3 reopen cycles
                            for _ in 0..e.r.range(1, 3) {
                                let (c, t) = redraw_conf(&mut e.r, f);
                                e.thr_name = t;
                                if !scan::hint_ids(&e.dir).is_empty() {
                                    rebuilt_from_hint = true;
                                }
                                e.do_reopen(Some(c))?;
                                e.check_all("after merge and reopen")?;
                                if merged_since_reopen {
                                    reopened_after_merge = true;
                                }
                            }
                            merged_since_reopen = false;
                        }
                    }
                }
                if f == Focus::C19 {
                    let (files, _) = check_accounting(&e, "after merge")?;
                    snapshots += 1;
                    out.count("files_compared", files);
                }
                if f == Focus::C12 && e.r.chance(1, 2) {
                    compare_hint_recovery(&mut e, ctx, case, out)?;
                }
            } else if x < merge_pct + reopen_pct {
                let times = if f == Focus::C02 { e.r.range(1, 4) } else { 1 };
                for _ in 0..times {
                    let (c, t) = redraw_conf(&mut e.r, f);
                    e.thr_name = t;
                    let had_hint = !scan::hint_ids(&e.dir).is_empty();
                    e.do_reopen(Some(c))?;
                    e.check_all("after reopen")?;
                    if merged_since_reopen {
                        reopened_after_merge = true;
                    }
                    if had_hint {
                        rebuilt_from_hint = true;
                    }
                    if f == Focus::C19 {
                        let (files, _) = check_accounting(&e, "after reopen")?;
                        snapshots += 1;
                        if had_hint {
                            snapshots_after_hint_rebuild += 1;
                        }
                        out.count("files_compared", files);
                    }
                }
                merged_since_reopen = false;
            } else {
                if faulty && e.r.chance(1, 25) {
                    if e.do_faulty_op()? {
                        out.count("operations_with_one_failing_call", 1);
                    }
                } else {
                    e.random_op()?;
                }
                if f == Focus::C19 && step % 4 == 3 {
                    let (files, _) = check_accounting(&e, "after op")?;
                    snapshots += 1;
                    out.count("files_compared", files);
                }
                if f == Focus::C12 && !e.merge_outputs.is_empty() && e.r.chance(1, 25) {
                    compare_hint_recovery(&mut e, ctx, case, out)?;
                }
            }
        }
        e.check_all("end of episode")?;
        match f {
            Focus::C02 | Focus::C05 => {
                let n = e.r.range(1, 3);
                for _ in 0..n {
                    e.do_reopen(None)?;
                    e.check_all("after final reopen")?;
                    if merged_since_reopen {
                        reopened_after_merge = true;
                    }
                }
            }
            Focus::C12 => {
                if !e.merge_outputs.is_empty() {
                    compare_hint_recovery(&mut e, ctx, case, out)?;
                }
            }
            Focus::C19 => {
                let (files, _) = check_accounting(&e, "end of episode")?;
                snapshots += 1;
                out.count("files_compared", files);
            }
            Focus::C13 => {}
        }
        Ok(())
    })();
    e.close();
    if let Some(s) = short {
        out.count("episodes_with_short_writes", 1);
        out.count("short_writes", s.done());
    }
    if f != Focus::C12 && f != Focus::C13 {
        out.evaluations += 1;
    }
    out.count("episodes", 1);
    out.count("ops", e.trace.len() as u64);
    out.count("reopens", e.f.reopens);
    out.count("overwrites", e.f.overwrites);
    out.count("dels_present", e.f.del_present);
    out.count("dels_absent", e.f.del_absent);
    out.count("resets_after_delete", e.f.reset_after_del);
    out.max("files_in_one_store", e.f.max_files);
    out.max("highest_file_id", e.f.max_id);
    out.class_counter(&format!("cfg:mfs{}|cache{}|pool{}|{}", e.conf.max_file_size, e.conf.cache, e.conf.conc, e.thr_name));
    match f {
        Focus::C02 => {
            out.count("keys_deleted_at_some_reopen", e.f.tombstones_at_reopen);
            if e.f.max_id >= 100 {
                out.count("episodes_with_ids_past_100", 1);
            }
            if e.f.reopens > 0 && e.f.tombstones_at_reopen > 0 && e.f.overwrites > 0 && e.f.max_files > 1 {
                out.class(format!("{:016x}", e.trace_hash()));
            }
        }
        Focus::C05 => {
            out.count("merges", e.f.merges);
            out.count("merges_removing_files", e.f.merges_nonempty);
            out.count("merges_partial_selection", e.f.merges_partial);
            out.count("merges_keeping_an_older_file", e.f.merges_kept_older);
            out.count("merges_with_several_outputs", e.f.merge_outputs_multi);
            out.count("reopens_reading_hint_files", e.f.reopens_with_hint);
            if reopened_after_merge && (e.f.merges_partial > 0 || e.f.del_present > 0) {
                out.class(format!("{:016x}", e.trace_hash()));
            }
        }
        Focus::C12 => {
            out.count("merges_removing_files", e.f.merges_nonempty);
            out.count("merges_with_several_outputs", e.f.merge_outputs_multi);
        }
        Focus::C13 => {
            out.count("merges_removing_files", e.f.merges_nonempty);
            out.count("merges_partial_selection", e.f.merges_partial);
        }
        Focus::C19 => {
            out.count("snapshots_compared", snapshots);
            out.count("snapshots_after_hint_rebuild", snapshots_after_hint_rebuild);
            out.count("merges_removing_files", e.f.merges_nonempty);
            if snapshots > 0 && e.f.overwrites > 0 && e.f.del_present > 0 && e.f.merges_nonempty > 0 && e.f.reopens > 0 {
                out.class(format!("{:016x}", e.trace_hash()));
            }
            let _ = rebuilt_from_hint;
        }
    }
    if case % 499 == 1 || out.samples.is_empty() {
        out.sample(e.sample(case));
    }
    let tail = e.tail_trace(30);
    let _ = std::fs::remove_dir_all(&dir);
    res.map_err(|x| (x, tail))
}

/// Which failures belong to the property being checked. The shared engine also notices failures
/// that are another property's subject (a wrong read after a reopen is C02/C05, not C12/C13/C19);
/// those end the episode and are counted, but only the owning check raises them.
fn owns(f: Focus, sig: &str) -> bool {
    match f {
        Focus::C02 | Focus::C05 => true,
        Focus::C12 => sig == "hint-recovery-differs",
        Focus::C13 => sig.starts_with("merge-") && sig != "merge-error" || sig == "repeat-merge-changed-size",
        Focus::C19 => sig.starts_with("index-") || sig.starts_with("accounting-"),
    }
}

fn worker(ctx: &Ctx, out: &mut Out) {
    let f = Focus::of(&ctx.id);
    for case in ctx.cases(total_cases(f, ctx.tier)) {
        ctx.checkpoint(out);
        ctx.breadcrumb(case, "episode");
        let r = std::panic::catch_unwind(std::panic::AssertUnwindSafe(|| episode(ctx, f, case, out)));
        match r {
            Ok(Ok(())) => {}
            Ok(Err((x, tail))) => {
                if owns(f, &x.sig) {
                    out.violation(&x.sig, format!("case {}: {}", case, x.desc), ctx.replay(case, json!({"last_ops": tail})));
                } else {
                    out.count("episodes_ended_by_another_propertys_failure", 1);
                    if std::env::var_os("BCVERIF_VERBOSE").is_some() {
                        eprintln!("case {}: not this property's subject: [{}] {}", case, x.sig, x.desc);
                    }
                }
            }
            Err(_) => {
                let msg = crate::last_panic();
                let underflow = msg.contains("overflow") && msg.contains("bitcask/log.rs");
                if owns(f, "any") || (f == Focus::C19 && underflow) {
                    let sig = if f == Focus::C19 { "accounting-underflow-panic".to_string() } else { format!("panic:{}", crate::panic_site(&msg)) };
                    out.violation(&sig, format!("case {}: panic: {}", case, msg), ctx.replay(case, json!({"panic": msg})));
                } else {
                    out.count("episodes_ended_by_another_propertys_failure", 1);
                }
            }
        }
    }
}

//! C17 - a closed store rejects all use and stops its background worker.

use std::collections::HashMap;
use std::time::{Duration, Instant};

use serde_json::json;

use super::{ncpu, secs, standard_run, Check};
use crate::orch::{even_plans, show, CheckSpec, Ctx, Out, Tier};
use crate::rng::Rng;
use crate::seqeng::make_value;
use crate::shim::{self, *};
use crate::store::{background_threads, fresh_dir, hdel, hget, hmerge, hset, wait_background_threads, Conf, OpErr, Policy, Store, SyncMode};

pub fn check() -> Check {
    Check {
        spec: CheckSpec {
            id: "C17",
            level: "exploration",
            rule: "one case = one open/use/close cycle on a store directory that lives across the cycles of a worker: configuration drawn from {merge timer an hour away, 1-5 ms merge timer with triggers exceeded so that merges run (their writes delayed by the shim so that the drop can land inside one), 1-5 ms interval sync}; some sets/deletes (model kept across cycles); in a quarter of the quiet cycles a last merge or set in which one write or create fails with ENOSPC (the writer is then closed in the state a failed operation leaves it in); the owning object is dropped after a seeded 0-10 ms pause while 1-3 handle clones are kept (one drop in six happens while the owning thread unwinds from a panic). Oracle: every set/get/del/merge through a kept handle returns the 'closed' error, and between the begin and end marks of such a call the shim logs no directory-changing call by the calling thread; the directory is opened again at once (before the old background thread has gone) and every key reads as the model says; the thread named bitcask-backgro* of the closed instance is gone within 5 s although its next timer may be an hour away; after every 25 cycles, with all handles dropped, the number of background threads and of open file descriptors is back at the worker's baseline. Non-trivial/distinct = distinct (configuration kind, pause, drop landed during background activity or not, ops) cycles; cycles whose drop landed while the background thread was inside a merge are counted from the shim log.",
            assumptions: vec!["thread identity comes from /proc/self/task/*/comm, descriptors from /proc/self/fd", "5 s for the worker thread to go is wall clock with slack (it takes well under 10 ms here)"],
            death_is_violation: true,
        },
        timing_dependent: true,
        run,
        worker,
    }
}

fn run(c: &Check, tier: Tier, seed: u64, t0: Instant) -> i32 {
    let n = ncpu() as u64;
    standard_run(c, tier, seed, t0, even_plans("", n, secs(tier.pick(900, 10_800))), n as usize, 20)
}

/// Descriptors that can only belong to a store instance: files of the store directory and the
/// epoll / eventfd of a background runtime. (tokio's process-wide signal socket pair stays.)
fn store_fds(dir: &std::path::Path) -> Vec<String> {
    let d = dir.to_string_lossy().to_string();
    std::fs::read_dir("/proc/self/fd")
        .map(|rd| rd.flatten().filter_map(|e| std::fs::read_link(e.path()).ok()).map(|p| p.to_string_lossy().to_string()).filter(|l| l.starts_with(&d) || l.contains("eventpoll") || l.contains("eventfd")).collect())
        .unwrap_or_default()
}

fn gettid() -> i32 {
    unsafe { libc::syscall(libc::SYS_gettid) as i32 }
}

fn worker(ctx: &Ctx, out: &mut Out) {
    let dir = fresh_dir(&ctx.scratch, "store");
    let mut model: HashMap<Vec<u8>, Vec<u8>> = HashMap::new();
    let keys: Vec<Vec<u8>> = (0..6).map(|i| format!("key-{}", i).into_bytes()).collect();
    let mut counter = 0u64;
    let mytid = gettid();
    // baseline after one warm-up cycle
    {
        let c = Conf::default();
        if let Ok(mut s) = Store::open(&dir, &c) {
            let _ = s.set(b"warm", b"up");
            s.close();
        }
        std::thread::sleep(Duration::from_millis(50));
        wait_background_threads(0, 5000);
    }
    model.insert(b"warm".to_vec(), b"up".to_vec());
    // this worker owns no other store: the baseline is no background thread and no store descriptor
    let base_threads = 0usize;
    let mut kept_handles: Vec<bitcask::storage::bitcask::Handle> = Vec::new();
    let cases = ctx.cases(ctx.tier.pick(12_000, 200_000));
    let mut since_check = 0;
    for (idx, case) in cases.iter().enumerate() {
        let case = *case;
        ctx.checkpoint(out);
        if idx % 16 == 0 {
            ctx.breadcrumb(case, "cycle");
        }
        if idx > 0 && idx % 400 == 0 {
            // every open leaves at least one (empty) file behind; start over with a fresh
            // directory now and then so that the scan at open stays short
            kept_handles.clear();
            wait_background_threads(0, 5000);
            let _ = std::fs::remove_dir_all(&dir);
            std::fs::create_dir_all(&dir).expect("fresh store directory");
            model.clear();
        }
        let mut r = Rng::derive(ctx.seed, 0xC17_0000_0000 ^ case);
        // 0 merge timer far away, 1 merges running, 2 short interval sync, 3 interval sync far away,
        // 4 both timers far away
        let kind = r.weighted(&[20, 40, 20, 12, 8]);
        let mut conf = Conf::default();
        conf.max_file_size = *r.pick(&[300u64, 4096, 65_536]);
        conf.conc = *r.pick(&[1usize, 2]);
        match kind {
            0 => {
                conf.policy = Policy::Always;
                conf.interval_ms = 3_600_000;
            }
            1 => {
                conf.policy = Policy::Always;
                conf.interval_ms = r.range(1, 5);
                conf.jitter = 0.3;
                conf.trig_frag = 0.0;
                conf.trig_dead = 0;
                conf.thr_frag = 1.0;
                conf.thr_dead = u64::MAX;
                // two out of three: every file is merged, the trigger clears; one out of three:
                // the thresholds select nothing, so every tick finds the trigger still exceeded
                conf.thr_small = if r.chance(2, 3) { u64::MAX } else { 0 };
            }
            2 => {
                conf.policy = Policy::Never;
                conf.sync = SyncMode::IntervalMs(r.range(1, 5));
            }
            3 => {
                conf.policy = Policy::Never;
                conf.sync = SyncMode::IntervalMs(*r.pick(&[20_000u64, 600_000, 3_600_000]));
            }
            _ => {
                conf.policy = Policy::Always;
                conf.interval_ms = 3_600_000;
                conf.jitter = *r.pick(&[0.0, 1.0]);
                conf.sync = SyncMode::IntervalMs(3_600_000);
            }
        }
        shim::log_reset();
        shim::record_data(false);
        shim::delay_clear();
        if kind == 1 {
            shim::delay_add(C_WRITE, F_DATA | F_HINT, BEFORE, 400_000, 100, 2000);
            shim::delay_add(C_UNLINK, F_ANY, BEFORE, 400_000, 100, 2000);
        }
        shim::watch(Some(&dir));
        let mut st = match Store::open(&dir, &conf) {
            Ok(s) => s,
            Err(e) => {
                out.violation("reopen-failed", format!("case {}: opening the directory again right after the previous close failed: {}", case, e), ctx.replay(case, json!({})));
                break;
            }
        };
        // the previous cycle's contents
        let mut bad = false;
        for k in keys.iter().chain(std::iter::once(&b"warm".to_vec())) {
            match st.get(k) {
                Ok(g) if g.as_ref() == model.get(k) => {}
                other => {
                    out.violation("contents-differ-after-immediate-reopen", format!("case {}: after closing and opening again at once key {} reads {:?}, the model says {:?}", case, show(k), other.map(|o| o.map(|v| v.len())), model.get(k).map(|v| v.len())), ctx.replay(case, json!({})));
                    bad = true;
                    break;
                }
            }
        }
        if bad {
            break;
        }
        // some work, with overwrites so that merge triggers are exceeded
        let nops = r.range(3, 25);
        for _ in 0..nops {
            let k = r.pick(&keys).clone();
            if r.chance(3, 4) {
                counter += 1;
                let sz = r.range(1, 400) as usize;
                let v = make_value(&mut r, counter, sz);
                if st.set(&k, &v).is_ok() {
                    model.insert(k, v);
                }
            } else if st.del(&k).is_ok() {
                model.remove(&k);
            }
        }
        // a quarter of the quiet cycles: the last thing before the drop is an operation in which one
        // file-system call fails (a merge, or a set of a key outside the model), so that the store
        // is closed in whatever state a failed operation leaves its writer in
        let mut failed_before_drop = false;
        if kind != 1 && r.chance(1, 4) {
            shim::fail(C_WRITE | C_CREATE, F_ANY, r.below(3) as i64, libc::ENOSPC);
            let res = if r.chance(1, 2) { st.merge().map_err(|e| format!("{:?}", e)) } else { st.set(b"\x03outside-the-model", &make_value(&mut r, 0, 600)).map_err(|e| format!("{:?}", e)) };
            failed_before_drop = shim::fail_hit().is_some();
            shim::fail_off();
            if failed_before_drop {
                out.count("cycles_with_a_failed_operation_before_the_drop", 1);
            }
            let _ = res;
        }
        let clones: Vec<_> = (0..r.range(1, 3)).map(|_| st.h.clone()).collect();
        let pause_us = *r.pick(&[0u64, 0, 200, 1000, 3000, 10_000]);
        if pause_us > 0 {
            std::thread::sleep(Duration::from_micros(pause_us));
        }
        shim::mark(M_NOTE, 100, 0); // about to drop
        let td = Instant::now();
        // the drop runs on a helper thread so that a drop that blocks (a worker that sleeps on
        // towards a timer an hour away) is an observation and not the end of this worker
        let kv = st.kv.take();
        let (dtx, drx) = std::sync::mpsc::channel::<()>();
        // one drop in six happens while the owning thread unwinds from a panic (the store is a local
        // of a function that panics): closing must be as complete then as at any other time
        let owner_panics = r.chance(1, 6);
        if owner_panics {
            out.count("drops_during_a_panic_of_the_owning_thread", 1);
        }
        let dropper = std::thread::spawn(move || {
            struct Done(std::sync::mpsc::Sender<()>);
            impl Drop for Done {
                fn drop(&mut self) {
                    let _ = self.0.send(());
                }
            }
            // locals go in reverse order of declaration: the store first, then the signal
            let _done = Done(dtx);
            let _owned = kv;
            if owner_panics {
                panic!("verification harness: the thread that owns the store panics");
            }
        });
        let dropped_in_time = drx.recv_timeout(Duration::from_secs(5)).is_ok();
        let drop_took = td.elapsed();
        shim::mark(M_NOTE, 101, 0); // dropped
        out.max("slowest_drop_us", drop_took.as_micros() as u64);
        if !dropped_in_time {
            let alive = background_threads();
            out.violation(
                "close-blocks",
                format!("case {} (kind {}, merge interval {} ms, sync {:?}): dropping the store had not returned after 5 s; {} background thread(s) alive: the worker does not stop promptly when its next timer is far away", case, kind, conf.interval_ms, conf.sync, alive),
                ctx.replay(case, json!({})),
            );
            // the store object is stuck in the helper thread: nothing more can be done with this directory
            let _ = std::fs::write(&ctx.out_path, serde_json::to_vec(&out.to_json()).unwrap());
            std::process::exit(0);
        }
        let _ = dropper.join();
        // use after close
        let mut post = 0;
        for (hi, h) in clones.iter().enumerate() {
            for op in 0..4 {
                shim::mark(M_OP_BEGIN, (hi * 4 + op) as u64, 0);
                let res: Result<(), OpErr> = match op {
                    0 => hset(h, &keys[0], b"after-close"),
                    1 => hget(h, &keys[0]).map(|_| ()),
                    2 => hdel(h, &keys[0]).map(|_| ()),
                    _ => hmerge(h),
                };
                shim::mark(M_OP_END, (hi * 4 + op) as u64, 0);
                post += 1;
                if res != Err(OpErr::Closed) {
                    out.violation(
                        &format!("use-after-close-{}", ["set", "get", "del", "merge"][op]),
                        format!("case {}: {} through a handle kept after the store was dropped returned {:?} instead of the 'closed' error", case, ["set", "get", "del", "merge"][op], res),
                        ctx.replay(case, json!({})),
                    );
                    bad = true;
                }
            }
        }
        out.count("post_drop_calls_checked", post);
        // the worker thread of the closed instance must go, whatever its timer
        let t0 = Instant::now();
        // open again at once, before waiting for the thread
        let again = Store::open(&dir, &Conf::default());
        match again {
            Ok(mut s2) => {
                for k in keys.iter() {
                    match s2.get(k) {
                        Ok(g) if g.as_ref() == model.get(k) => {}
                        other => {
                            out.violation("contents-differ-after-immediate-reopen", format!("case {} (kind {}): opened again immediately after the drop, key {} reads {:?}, the model says {:?}", case, kind, show(k), other.map(|o| o.map(|v| v.len())), model.get(k).map(|v| v.len())), ctx.replay(case, json!({})));
                            bad = true;
                            break;
                        }
                    }
                }
                s2.close();
            }
            Err(e) => {
                out.violation("reopen-failed", format!("case {} (kind {}): opening the directory again at once after the drop failed: {}", case, kind, e), ctx.replay(case, json!({})));
                bad = true;
            }
        }
        let gone = wait_background_threads(base_threads, 5000);
        let took = t0.elapsed();
        out.max("slowest_worker_thread_exit_us", took.as_micros() as u64);
        if !gone {
            out.violation("background-thread-survives-close", format!("case {} (kind {}, merge interval {} ms): 5 s after the store was dropped {} background thread(s) are still alive", case, kind, conf.interval_ms, background_threads() - base_threads), ctx.replay(case, json!({})));
            bad = true;
        }
        // the log: nothing changed on disk on behalf of post-drop calls; was a merge in flight at the drop?
        shim::watch(None);
        let evs = shim::take_log(&dir, true);
        let mut inside = false;
        let mut dropped_at = None;
        let mut dropping = false;
        let mut bg_after_drop = 0;
        let mut bg_during_drop = 0;
        for (i, e) in evs.iter().enumerate() {
            if e.is_mark(M_NOTE) && e.a == 100 {
                dropping = true;
            }
            if e.is_mark(M_NOTE) && e.a == 101 {
                dropped_at = Some(i);
                dropping = false;
            }
            if dropping && e.kind != K_MARK && e.tid != mytid && e.flags & RF_MUTATING != 0 {
                bg_during_drop += 1;
            }
            if e.is_mark(M_OP_BEGIN) {
                inside = true;
            } else if e.is_mark(M_OP_END) {
                inside = false;
            } else if inside && e.tid == mytid && e.flags & RF_MUTATING != 0 && e.kind != K_MARK {
                out.violation("disk-changed-after-close", format!("case {}: a call through a handle of a closed store made the directory-changing call {}", case, e.brief()), ctx.replay(case, json!({})));
                bad = true;
            }
            if dropped_at.is_some() && e.kind != K_MARK && e.tid != mytid && e.flags & RF_MUTATING != 0 {
                bg_after_drop += 1;
            }
        }
        if bg_after_drop > 0 {
            out.count("cycles_with_background_calls_after_the_drop_returned", 1);
        }
        if bg_during_drop > 0 {
            out.count("drops_that_landed_during_background_activity", 1);
        }
        out.evaluations += 1;
        out.count("cycles", 1);
        out.count(["cycles_merge_timer_far_away", "cycles_merging", "cycles_interval_sync", "cycles_sync_timer_far_away", "cycles_both_timers_far_away"][kind], 1);
        out.class(format!("k{}-p{}-bg{}-n{}-i{}-f{}", kind, pause_us, (bg_during_drop > 0) as u8, nops, conf.interval_ms.min(9), failed_before_drop as u8));
        // sometimes keep a handle around for longer
        let mut clones = clones;
        if r.chance(1, 10) {
            kept_handles.push(clones.remove(0));
        }
        drop(clones);
        drop(st);
        since_check += 1;
        if since_check >= 25 || idx + 1 == cases.len() {
            since_check = 0;
            kept_handles.clear();
            wait_background_threads(base_threads, 5000);
            // descriptors are released when the last handle goes; give the last thread a moment
            let t1 = Instant::now();
            let mut fds = store_fds(&dir);
            while !fds.is_empty() && t1.elapsed() < Duration::from_secs(5) {
                std::thread::sleep(Duration::from_millis(2));
                fds = store_fds(&dir);
            }
            out.count("accumulation_checks", 1);
            if !fds.is_empty() {
                out.violation("file-descriptors-accumulate", format!("case {}: after {} open/close cycles with every handle dropped and every background thread gone the process still holds {} descriptors of store instances: {:?}", case, idx + 1, fds.len(), fds), ctx.replay(case, json!({})));
                bad = true;
            }
            if background_threads() > base_threads {
                out.violation("threads-accumulate", format!("case {}: after {} open/close cycles {} background threads remain", case, idx + 1, background_threads() - base_threads), ctx.replay(case, json!({})));
                bad = true;
            }
        }
        if out.samples.len() < 3 && (case % 499 == 3 || out.samples.is_empty()) {
            let kind_name = ["merge timer 1 h away", "1-5 ms merge timer, triggers exceeded", "1-5 ms interval sync", "interval sync 20 s..1 h away", "merge and sync timers 1 h away"][kind];
            out.sample(json!({"case": case, "kind": kind_name, "ops": nops, "pause_before_drop_us": pause_us, "handles_kept": 1, "background_calls_after_drop": bg_after_drop, "worker_thread_gone_after_us": took.as_micros() as u64}));
        }
        if bad {
            break;
        }
    }
    shim::delay_clear();
}

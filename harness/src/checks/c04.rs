//! C04 - concurrent gets, sets and deletes are linearizable and never panic or hang.

use std::collections::{BTreeMap, HashMap};
use std::sync::atomic::{AtomicBool, AtomicU64, Ordering};
use std::sync::{Arc, Mutex};
use std::time::{Duration, Instant};

use bitcask::storage::bitcask::Handle;
use serde_json::json;

use super::{ncpu, secs, Check};
use crate::linz::{self, Kind, Op, Verdict};
use crate::orch::{conclude, run_workers, run_workers_with, show, CheckSpec, Ctx, Out, Tier, WorkerPlan};
use crate::rng::Rng;
use crate::shim;
use crate::store::{fresh_dir, hdel, hget, hmerge, hset, Conf, Store};

pub fn check() -> Check {
    Check {
        spec: CheckSpec {
            id: "C04",
            level: "exploration",
            rule: "one case = one episode: 1-4 writer threads, 2-10 reader threads, optionally a deleter and a thread running merge passes in a loop, on 2-6 keys of one store (reader pool 1/2/4, reader cache 0/1/256, max_file_size 0..64 KiB, values 16 B..64 KiB on both sides of the 8 KiB buffer, every written value unique and self-describing so torn or foreign bytes are recognised), in 20-120 segments of 4-10 operations per thread separated by barriers; the I/O shim injects seeded delays after data-file writes, before reader open/mmap and around unlink. Recorded per operation at the Handle boundary: thread, op, key, value id, invocation stamp, result, response stamp (one global atomic counter). Oracle: (a) per key and segment a Wing-Gong linearizability search over a set/get/del register, started from the value read at the previous barrier, with the barrier's quiescent reads as part of the history; any Err is a violation (no fault is injected; except in a quarter of the episodes, where now and then one open-for-reading or mmap of a data file fails and a get or merge pass may report that); (b) no panic (each op under catch_unwind); (c) at every barrier the reader pool holds all its readers again (verif_dump); (d) no segment takes longer than 30 s (operations take microseconds). One evaluation = one checked (key, segment) history. Non-trivial/distinct = distinct overlap patterns (hash of the order of invocation/response events and op kinds) among histories in which a get overlapped a set or delete of the same key.",
            assumptions: vec![
                "stamps are taken before the call and after the return, which can only widen intervals: the checker may accept more than real time allows, never reject a correct history",
                "interleavings are sampled; delays raise the odds of the windows named in the property, they do not enumerate schedules",
            ],
            death_is_violation: true,
        },
        timing_dependent: true,
        run,
        worker,
    }
}

fn run(c: &Check, tier: Tier, seed: u64, t0: Instant) -> i32 {
    // each worker process runs many threads; fewer processes than cores on purpose (some episodes oversubscribe)
    let n = (ncpu() as u64 / 2).max(2);
    let to = secs(tier.pick(900, 10_800));
    let plans: Vec<WorkerPlan> = (0..n).map(|i| WorkerPlan { mode: "".into(), shard: i, nshards: n, timeout: to }).collect();
    let mut out = run_workers(&c.spec, tier, seed, plans, n as usize);
    let mut extra = json!({});
    if let Ok(bin) = std::env::var("BCVERIF_TSAN_BIN") {
        if std::path::Path::new(&bin).exists() {
            let logdir = std::path::PathBuf::from(std::env::var("BCVERIF_TSAN_LOGDIR").unwrap_or("/tmp/bcverif-tsan".into()));
            let _ = std::fs::remove_dir_all(&logdir);
            let _ = std::fs::create_dir_all(&logdir);
            std::env::set_var("TSAN_OPTIONS", format!("halt_on_error=0 exitcode=0 log_path={}/r", logdir.display()));
            // 1. the sanitizer must be alive: a deliberate race has to be reported
            let _ = std::process::Command::new(&bin).arg("tsan-selftest").stdout(std::process::Stdio::null()).stderr(std::process::Stdio::null()).status();
            let (self_reports, _, _) = tsan_reports(&logdir);
            extra["tsan_selftest_reports"] = json!(self_reports);
            let _ = std::fs::remove_dir_all(&logdir);
            let _ = std::fs::create_dir_all(&logdir);
            if self_reports == 0 {
                out.inconclusive.push("the ThreadSanitizer build did not report a deliberate data race: its reports cannot be trusted".into());
            } else {
                // 2. the same worker, instrumented
                let plans: Vec<WorkerPlan> = (0..8).map(|i| WorkerPlan { mode: "tsan".into(), shard: i, nshards: 8, timeout: to }).collect();
                let o2 = run_workers_with(&c.spec, tier, seed, plans, 8, Some(std::path::PathBuf::from(&bin)));
                extra["tsan_episodes"] = json!(o2.counters.get("episodes").cloned().unwrap_or(0));
                extra["tsan_operations"] = json!(o2.counters.get("operations").cloned().unwrap_or(0));
                out.merge(o2);
                let (n, in_repo, external) = tsan_reports(&logdir);
                extra["tsan_reports_total"] = json!(n);
                extra["tsan_reports_external_only"] = json!(external.len());
                extra["tsan_external_examples"] = json!(external.iter().take(3).collect::<Vec<_>>());
                for (site, text) in in_repo {
                    let keep = crate::orch::verif_root().join("replays").join(format!("C04-tsan-{:016x}.txt", crate::orch::fnv(site.as_bytes())));
                    let _ = std::fs::create_dir_all(keep.parent().unwrap());
                    let _ = std::fs::write(&keep, &text);
                    out.violation(&format!("tsan-data-race:{}", site), format!("ThreadSanitizer reported a data race with a frame in the repository at {} (report kept in {})", site, keep.display()), json!({"property": "C04", "report": keep.to_str()}));
                }
            }
        }
    }
    conclude(&c.spec, tier, seed, out, t0.elapsed().as_secs_f64(), 30, extra)
}

/// Parse ThreadSanitizer log files: (number of reports, reports with a frame in /repo/src as
/// (first repository frame, text), first lines of reports without one).
fn tsan_reports(dir: &std::path::Path) -> (u64, Vec<(String, String)>, Vec<String>) {
    let mut n = 0;
    let mut in_repo: Vec<(String, String)> = Vec::new();
    let mut external = Vec::new();
    if let Ok(rd) = std::fs::read_dir(dir) {
        for e in rd.flatten() {
            let text = std::fs::read_to_string(e.path()).unwrap_or_default();
            for rep in text.split("==================").filter(|b| b.contains("WARNING: ThreadSanitizer")) {
                n += 1;
                let site = rep.lines().find(|l| l.contains("/repo/src/")).map(|l| {
                    let i = l.find("/repo/src/").unwrap();
                    l[i + 6..].split_whitespace().next().unwrap_or("").trim_end_matches(')').to_string()
                });
                match site {
                    Some(s) => {
                        if !in_repo.iter().any(|(x, _)| *x == s) {
                            in_repo.push((s, rep.to_string()));
                        }
                    }
                    None => external.push(rep.lines().find(|l| l.contains("WARNING")).unwrap_or("").to_string()),
                }
            }
        }
    }
    (n, in_repo, external)
}

static CLOCK: AtomicU64 = AtomicU64::new(1);
fn stamp() -> u64 {
    CLOCK.fetch_add(1, Ordering::SeqCst)
}

/// value bytes for id: 8-byte id, 4-byte length, then a pattern derived from both
pub fn value_for(id: u64, size: usize) -> Vec<u8> {
    let size = size.max(12);
    let mut v = Vec::with_capacity(size);
    v.extend_from_slice(&id.to_le_bytes());
    v.extend_from_slice(&(size as u32).to_le_bytes());
    let mut x = id.wrapping_mul(0x9E3779B97F4A7C15) ^ size as u64;
    while v.len() < size {
        x ^= x << 13;
        x ^= x >> 7;
        x ^= x << 17;
        v.push((x >> 16) as u8);
    }
    v
}

/// id of a value read back, if it is exactly a value that was written in full
pub fn id_of(v: &[u8]) -> Option<u64> {
    if v.len() < 12 {
        return None;
    }
    let id = u64::from_le_bytes(v[..8].try_into().unwrap());
    let size = u32::from_le_bytes(v[8..12].try_into().unwrap()) as usize;
    if size != v.len() || value_for(id, size) != v {
        return None;
    }
    Some(id)
}

#[derive(Clone, Copy, PartialEq, Eq, Debug)]
enum Role {
    Writer,
    Reader,
    Deleter,
    Merger,
    Mixed,
}

struct Shared {
    handle: Handle,
    keys: Vec<Vec<u8>>,
    /// per key: operations of the current segment
    hist: Vec<Mutex<Vec<Op>>>,
    problems: Mutex<Vec<(String, String)>>,
    next_id: AtomicU64,
    /// segment control
    go: AtomicU64,
    done: AtomicU64,
    stop: AtomicBool,
    ops_done: AtomicU64,
    merges_done: AtomicU64,
    size_classes: Vec<u8>,
    /// read-side failures (open for reading / mmap of a data file) are injected in this episode: a
    /// get or a merge pass may then return an error, which is not a result
    faulty: bool,
    failed_under_fault: AtomicU64,
}

fn problem(sh: &Shared, sig: &str, desc: String) {
    let mut p = sh.problems.lock().unwrap();
    if p.len() < 10 {
        p.push((sig.to_string(), desc));
    }
}

fn draw_size(r: &mut Rng, classes: &[u8]) -> usize {
    match *r.pick(classes) {
        0 => r.range(12, 64) as usize,
        1 => r.range(65, 1500) as usize,
        2 => r.range(4000, 8100) as usize,
        3 => r.range(8101, 20_000) as usize,
        4 => r.range(40_000, 70_000) as usize,
        // megabytes: the kernel grows the file page by page during one write call, so a reader can
        // map the file while it ends inside such an entry
        _ => r.range(1_000_000, 3_000_000) as usize,
    }
}

fn one_op(sh: &Shared, tid: u32, role: Role, r: &mut Rng) {
    let ki = r.usize_below(sh.keys.len());
    let key = &sh.keys[ki];
    let choice = match role {
        Role::Writer => 0,
        Role::Reader => 1,
        Role::Deleter => {
            if r.chance(3, 4) {
                2
            } else {
                1
            }
        }
        Role::Mixed => r.weighted(&[40, 45, 15]),
        Role::Merger => 3,
    };
    match choice {
        0 => {
            let id = sh.next_id.fetch_add(1, Ordering::SeqCst);
            let v = value_for(id, draw_size(r, &sh.size_classes));
            let call = stamp();
            let res = std::panic::catch_unwind(std::panic::AssertUnwindSafe(|| hset(&sh.handle, key, &v)));
            let ret = stamp();
            match res {
                Ok(Ok(())) => sh.hist[ki].lock().unwrap().push(Op { thread: tid, kind: Kind::Set(id), call, ret }),
                Ok(Err(e)) => {
                    problem(sh, "operation-error", format!("set({}, #{} {}B) returned {:?} although no fault is injected", show(key), id, v.len(), e));
                    sh.hist[ki].lock().unwrap().push(Op { thread: tid, kind: Kind::Set(id), call, ret: linz::PENDING });
                }
                Err(_) => {
                    let m = crate::last_panic();
                    problem(sh, &format!("panic:{}", crate::panic_site(&m)), format!("set({}, {}B) panicked: {}", show(key), v.len(), m));
                    sh.hist[ki].lock().unwrap().push(Op { thread: tid, kind: Kind::Set(id), call, ret: linz::PENDING });
                }
            }
        }
        1 => {
            let call = stamp();
            let res = std::panic::catch_unwind(std::panic::AssertUnwindSafe(|| hget(&sh.handle, key)));
            let ret = stamp();
            match res {
                Ok(Ok(None)) => sh.hist[ki].lock().unwrap().push(Op { thread: tid, kind: Kind::Get(None), call, ret }),
                Ok(Ok(Some(v))) => match id_of(&v) {
                    Some(id) => sh.hist[ki].lock().unwrap().push(Op { thread: tid, kind: Kind::Get(Some(id)), call, ret }),
                    None => problem(sh, "torn-or-foreign-value", format!("get({}) returned {} bytes that are not any value written in full: {}", show(key), v.len(), show(&v))),
                },
                Ok(Err(_)) if sh.faulty => {
                    sh.failed_under_fault.fetch_add(1, Ordering::Relaxed);
                }
                Ok(Err(e)) => problem(sh, "operation-error", format!("get({}) returned {:?} although no fault is injected", show(key), e)),
                Err(_) => {
                    let m = crate::last_panic();
                    problem(sh, &format!("panic:{}", crate::panic_site(&m)), format!("get({}) panicked: {}", show(key), m));
                }
            }
        }
        2 => {
            let call = stamp();
            let res = std::panic::catch_unwind(std::panic::AssertUnwindSafe(|| hdel(&sh.handle, key)));
            let ret = stamp();
            match res {
                Ok(Ok(b)) => sh.hist[ki].lock().unwrap().push(Op { thread: tid, kind: Kind::Del(b), call, ret }),
                Ok(Err(e)) => {
                    problem(sh, "operation-error", format!("del({}) returned {:?} although no fault is injected", show(key), e));
                    sh.hist[ki].lock().unwrap().push(Op { thread: tid, kind: Kind::DelUnknown, call, ret: linz::PENDING });
                }
                Err(_) => {
                    let m = crate::last_panic();
                    problem(sh, &format!("panic:{}", crate::panic_site(&m)), format!("del({}) panicked: {}", show(key), m));
                    sh.hist[ki].lock().unwrap().push(Op { thread: tid, kind: Kind::DelUnknown, call, ret: linz::PENDING });
                }
            }
        }
        _ => {
            let res = std::panic::catch_unwind(std::panic::AssertUnwindSafe(|| hmerge(&sh.handle)));
            match res {
                Ok(Ok(())) => {
                    sh.merges_done.fetch_add(1, Ordering::Relaxed);
                }
                Ok(Err(_)) if sh.faulty => {
                    sh.failed_under_fault.fetch_add(1, Ordering::Relaxed);
                }
                Ok(Err(e)) => problem(sh, "operation-error", format!("merge returned {:?} although no fault is injected", e)),
                Err(_) => {
                    let m = crate::last_panic();
                    problem(sh, &format!("panic:{}", crate::panic_site(&m)), format!("merge panicked: {}", m));
                }
            }
        }
    }
    sh.ops_done.fetch_add(1, Ordering::Relaxed);
}

struct EpisodeResult {
    segments: u64,
    ops: u64,
    merges: u64,
    histories: u64,
    hang: bool,
}

fn episode(ctx: &Ctx, case: u64, out: &mut Out, tsan: bool) -> EpisodeResult {
    let mut r = Rng::derive(ctx.seed, 0xC04_0000_0000 ^ case);
    let writers = r.range(1, 4) as usize;
    let readers = r.range(2, if tsan { 5 } else { 10 }) as usize;
    let deleter = r.chance(1, 2);
    let merger = r.chance(2, 3);
    let mixed = r.range(0, 3) as usize;
    let nkeys = r.range(2, 6) as usize;
    let mut conf = Conf::default();
    conf.conc = *r.pick(&[0usize, 1, 2, 4]);
    conf.cache = *r.pick(&[0usize, 1, 256]);
    conf.max_file_size = *r.pick(&[0u64, 300, 4096, 20_000, 65_536, 65_536]);
    // merges select everything or whatever is fragmented
    if r.chance(1, 2) {
        conf.thr_frag = 1.0;
        conf.thr_dead = u64::MAX;
        conf.thr_small = u64::MAX;
    } else {
        conf.thr_frag = 0.0;
        conf.thr_dead = 0;
        conf.thr_small = *r.pick(&[0u64, 5000]);
    }
    let size_classes: Vec<u8> = r.pick(&[vec![0u8, 0, 1], vec![0, 1, 3], vec![0, 2, 3, 3], vec![3, 3, 1], vec![0, 3, 4], vec![0, 0, 5], vec![0, 5]]).clone();
    let segments = r.range(ctx.tier.pick(15, 30), ctx.tier.pick(60, 160));
    let ops_per_seg = r.range(4, 10);
    let keys: Vec<Vec<u8>> = (0..nkeys).map(|i| format!("key-{}", i).into_bytes()).collect();
    let dir = fresh_dir(&ctx.scratch, &format!("c{}", case));

    // delays from the shim
    shim::log_reset();
    shim::record_data(false);
    shim::seed(ctx.seed ^ case);
    shim::delay_clear();
    let delays = r.chance(3, 4) && shim::present();
    if delays {
        let p = *r.pick(&[20_000u32, 80_000, 250_000]);
        shim::delay_add(shim::C_WRITE, shim::F_DATA, shim::AFTER, p, 20, 400);
        shim::delay_add(shim::C_OPENRD | shim::C_MMAP, shim::F_DATA, shim::BEFORE | shim::AFTER, p, 20, 300);
        shim::delay_add(shim::C_WRITE, shim::F_HINT, shim::BEFORE, p / 2, 20, 300);
        shim::delay_add(shim::C_UNLINK, shim::F_ANY, shim::BEFORE | shim::AFTER, p, 20, 400);
    }
    // a quarter of the episodes on a file system that completes some writes only partly: an entry
    // then reaches its file in two calls, with a reader free to map the file in between
    let short = case % 4 == 3 && shim::present();
    let shorts0 = shim::shorts_done();
    if short {
        shim::short_writes(300_000, (ctx.seed ^ case) | 1);
    }
    shim::watch(Some(&dir));

    let st = match Store::open(&dir, &conf) {
        Ok(s) => s,
        Err(e) => {
            out.violation("open-failed", format!("case {}: open failed: {}", case, e), ctx.replay(case, json!({})));
            return EpisodeResult { segments: 0, ops: 0, merges: 0, histories: 0, hang: false };
        }
    };
    // a quarter of the episodes (not under ThreadSanitizer, where the shim is not linked): now and then
    // one open-for-reading or mmap of a data file fails (EIO / EMFILE) under a get or a merge pass
    let faulty = case % 4 == 2 && shim::present();
    let sh = Arc::new(Shared {
        handle: st.h.clone(),
        keys: keys.clone(),
        hist: (0..nkeys).map(|_| Mutex::new(Vec::new())).collect(),
        problems: Mutex::new(Vec::new()),
        next_id: AtomicU64::new(1),
        go: AtomicU64::new(0),
        done: AtomicU64::new(0),
        stop: AtomicBool::new(false),
        ops_done: AtomicU64::new(0),
        merges_done: AtomicU64::new(0),
        size_classes,
        faulty,
        failed_under_fault: AtomicU64::new(0),
    });
    let mut roles: Vec<Role> = Vec::new();
    roles.extend(std::iter::repeat(Role::Writer).take(writers));
    roles.extend(std::iter::repeat(Role::Reader).take(readers));
    roles.extend(std::iter::repeat(Role::Mixed).take(mixed));
    if deleter {
        roles.push(Role::Deleter);
    }
    if merger {
        roles.push(Role::Merger);
    }
    let nthreads = roles.len() as u64;
    let mut joins = Vec::new();
    for (tid, role) in roles.iter().enumerate() {
        let sh = sh.clone();
        let role = *role;
        let mut tr = Rng::derive(ctx.seed ^ case, 0x7000 + tid as u64);
        joins.push(std::thread::Builder::new().name(format!("c04-{:?}-{}", role, tid)).spawn(move || {
            let mut seg = 0u64;
            loop {
                // wait for the coordinator to open the next segment
                while sh.go.load(Ordering::Acquire) <= seg {
                    if sh.stop.load(Ordering::Acquire) {
                        return;
                    }
                    std::thread::yield_now();
                }
                seg += 1;
                let n = if role == Role::Merger { 1 + tr.below(2) } else { ops_per_seg };
                for _ in 0..n {
                    one_op(&sh, tid as u32, role, &mut tr);
                    if tr.chance(1, 6) {
                        std::thread::yield_now();
                    }
                }
                sh.done.fetch_add(1, Ordering::AcqRel);
            }
        }).expect("spawn"));
    }

    let mut init: Vec<Option<u64>> = vec![None; nkeys];
    let mut res = EpisodeResult { segments: 0, ops: 0, merges: 0, histories: 0, hang: false };
    let mut sample_hist: Option<serde_json::Value> = None;
    'segments: for seg in 0..segments {
        ctx.breadcrumb(case, &format!("segment {}", seg));
        if faulty && r.chance(1, 3) {
            shim::fail(shim::C_OPENRD | shim::C_MMAP, shim::F_DATA, r.below(3) as i64, if r.chance(1, 2) { libc::EIO } else { libc::EMFILE });
            out.count("read_side_failures_armed", 1);
        }
        sh.done.store(0, Ordering::Release);
        sh.go.store(seg + 1, Ordering::Release);
        let t0 = Instant::now();
        let mut last_progress = (sh.ops_done.load(Ordering::Relaxed), Instant::now());
        while sh.done.load(Ordering::Acquire) < nthreads {
            std::thread::sleep(Duration::from_micros(100));
            let now = sh.ops_done.load(Ordering::Relaxed);
            if now != last_progress.0 {
                last_progress = (now, Instant::now());
            }
            if last_progress.1.elapsed() > Duration::from_secs(30) {
                res.hang = true;
                let pending = nthreads - sh.done.load(Ordering::Acquire);
                let probs = sh.problems.lock().unwrap().clone();
                out.violation(
                    "hang",
                    format!("case {} segment {}: no operation completed for 30 s while {} threads were still inside the store (segment running for {:?}; earlier problems in this episode: {:?})", case, seg, pending, t0.elapsed(), probs.iter().map(|p| &p.0).collect::<Vec<_>>()),
                    ctx.replay(case, json!({"segment": seg})),
                );
                break 'segments;
            }
        }
        // quiescent point: all threads are parked. Look at the reader pool first: with a reader
        // missing (a get that panicked never returns its reader) a read from here could spin forever.
        let d = sh.handle.verif_dump();
        let pool_ok = d.readers_available == d.readers_capacity;
        if !pool_ok {
            problem(&sh, "reader-pool-shrunk", format!("at the barrier after segment {} the reader pool holds {} of its {} readers: read capacity was permanently reduced", seg, d.readers_available, d.readers_capacity));
        }
        let mut quiescent: Vec<Option<u64>> = Vec::new();
        for (ki, k) in keys.iter().enumerate() {
            if !pool_ok {
                quiescent.push(None);
                continue;
            }
            let mut call = stamp();
            let mut g = std::panic::catch_unwind(std::panic::AssertUnwindSafe(|| hget(&sh.handle, k)));
            let mut ret = stamp();
            let mut tries = 0;
            while faulty && tries < 5 && matches!(g, Ok(Err(_))) {
                // the harness's own read ran into the injected failure
                tries += 1;
                sh.failed_under_fault.fetch_add(1, Ordering::Relaxed);
                call = stamp();
                g = std::panic::catch_unwind(std::panic::AssertUnwindSafe(|| hget(&sh.handle, k)));
                ret = stamp();
            }
            match g {
                Ok(Ok(v)) => {
                    let idv = match &v {
                        None => Some(None),
                        Some(b) => id_of(b).map(Some),
                    };
                    match idv {
                        Some(x) => {
                            sh.hist[ki].lock().unwrap().push(Op { thread: 999, kind: Kind::Get(x), call, ret });
                            quiescent.push(x);
                        }
                        None => {
                            problem(&sh, "torn-or-foreign-value", format!("quiescent get({}) returned bytes that are not a value written in full", show(k)));
                            quiescent.push(None);
                        }
                    }
                }
                Ok(Err(e)) => {
                    problem(&sh, "operation-error", format!("quiescent get({}) returned {:?}", show(k), e));
                    quiescent.push(None);
                }
                Err(_) => {
                    let m = crate::last_panic();
                    problem(&sh, &format!("panic:{}", crate::panic_site(&m)), format!("quiescent get({}) panicked: {}", show(k), m));
                    quiescent.push(None);
                    break;
                }
            }
        }
        while quiescent.len() < nkeys {
            quiescent.push(None);
        }
        // judge the segment
        for ki in 0..nkeys {
            let ops: Vec<Op> = std::mem::take(&mut *sh.hist[ki].lock().unwrap());
            out.evaluations += 1;
            res.histories += 1;
            match linz::check_key(&ops, init[ki], 3_000_000) {
                Verdict::Ok { nodes } => {
                    out.max("checker_states_in_one_history", nodes);
                }
                Verdict::Violation { explanation } => {
                    let hist: Vec<String> = ops.iter().map(linz::brief).collect();
                    out.violation(
                        "not-linearizable",
                        format!("case {} segment {} key {}: {} (initial value {:?})", case, seg, show(&keys[ki]), explanation, init[ki]),
                        ctx.replay(case, json!({"segment": seg, "key": show(&keys[ki]), "initial": init[ki], "history": hist})),
                    );
                }
                Verdict::Inconclusive(why) => {
                    out.count("histories_inconclusive", 1);
                    if out.counters.get("histories_inconclusive").cloned().unwrap_or(0) > 50 {
                        out.inconclusive.push(format!("case {}: linearizability search gave up repeatedly: {}", case, why));
                    }
                }
            }
            let pairs = linz::overlapping_get_set_pairs(&ops);
            out.count("gets_overlapping_a_write_of_the_same_key", pairs);
            if pairs > 0 {
                out.class(format!("{:016x}", linz::overlap_pattern(&ops)));
            }
            out.max("ops_in_one_history", ops.len() as u64);
            if (sample_hist.is_none() && pairs > 2 && ops.len() <= 14) || (sample_hist.is_none() && out.samples.is_empty() && !ops.is_empty() && ops.len() <= 24) {
                sample_hist = Some(json!({"case": case, "segment": seg, "key": show(&keys[ki]), "initial": init[ki], "history": ops.iter().map(linz::brief).collect::<Vec<_>>()}));
            }
            init[ki] = quiescent[ki];
        }
        res.segments += 1;
        let probs: Vec<(String, String)> = std::mem::take(&mut *sh.problems.lock().unwrap());
        if !probs.is_empty() {
            for (sig, desc) in probs {
                out.violation(&sig, format!("case {} segment {}: {}", case, seg, desc), ctx.replay(case, json!({"segment": seg})));
            }
            // after a panic the pool may have shrunk: going on would only spin
            break;
        }
    }
    sh.stop.store(true, Ordering::Release);
    if !res.hang {
        for j in joins {
            let _ = j.join();
        }
    }
    res.ops = sh.ops_done.load(Ordering::Relaxed);
    res.merges = sh.merges_done.load(Ordering::Relaxed);
    shim::fail_off();
    if faulty {
        out.count("episodes_with_read_side_failures", 1);
        out.count("gets_and_merges_failed_by_an_injected_failure", sh.failed_under_fault.load(Ordering::Relaxed));
    }
    shim::watch(None);
    shim::delay_clear();
    shim::short_writes(0, 0);
    if short {
        out.count("episodes_with_short_writes", 1);
        out.count("short_writes", shim::shorts_done() - shorts0);
    }
    if !res.hang {
        drop(st);
        crate::store::wait_background_threads(0, 5000);
        let evs = shim::take_log(&dir, true);
        out.count("reader_opens_seen", evs.iter().filter(|e| e.kind == shim::K_OPEN && e.a & libc::O_CREAT as u64 == 0).count() as u64);
        out.count("reader_mmaps_seen", evs.iter().filter(|e| e.kind == shim::K_MMAP).count() as u64);
        out.count("merge_unlinks_seen", evs.iter().filter(|e| e.kind == shim::K_UNLINK && e.result == 0).count() as u64);
        let _ = std::fs::remove_dir_all(&dir);
    }
    out.count("episodes", 1);
    out.count("operations", res.ops);
    out.count("segments", res.segments);
    out.count("merge_passes", res.merges);
    {
        static LAST: AtomicU64 = AtomicU64::new(0);
        let now = shim::delays_done();
        out.count("delays_injected", now - LAST.swap(now, Ordering::Relaxed).min(now));
    }
    out.class_counter(&format!("cfg:w{}r{}m{}d{}x{}|pool{}|cache{}|mfs{}|delays{}", writers, readers, merger as u8, deleter as u8, mixed, conf.conc, conf.cache, conf.max_file_size, delays as u8));
    if let Some(s) = sample_hist {
        out.sample(s);
    }
    res
}

fn worker(ctx: &Ctx, out: &mut Out) {
    let tsan = ctx.mode == "tsan";
    let total = if tsan { ctx.tier.pick(16, 120) } else { ctx.tier.pick(160, 4000) };
    let mut delays_base = 0u64;
    for case in ctx.cases(total) {
        ctx.checkpoint(out);
        let r = episode(ctx, case, out, tsan);
        let _ = &mut delays_base;
        if r.hang {
            // threads are stuck inside the store: report what we have and leave
            let _ = std::fs::write(&ctx.out_path, serde_json::to_vec(&out.to_json()).unwrap());
            std::process::exit(0);
        }
    }
    let _: BTreeMap<u8, u8> = BTreeMap::new();
    let _: HashMap<u8, u8> = HashMap::new();
}

//! C10 - hostile or malformed input harms only the connection that sent it.

use std::collections::HashMap;
use std::io::Write;
use std::time::{Duration, Instant};

use serde_json::json;

use super::c06::{gen_commands, run_connection, Cmd};
use super::{ncpu, secs, standard_run, Check};
use crate::netcli::{connect, Rx, Server};
use crate::orch::{even_plans, show, CheckSpec, Ctx, Out, Tier};
use crate::resp::{command, RFrame};
use crate::rng::Rng;
use crate::store::{fresh_dir, Conf};

pub fn check() -> Check {
    Check {
        spec: CheckSpec {
            id: "C10",
            level: "exploration",
            rule: "one case = one scenario against a child process running the real Server over a real store: 1-4 hostile connections at once, each sending a stream of one attack class (random bytes; valid non-array frames; unknown / lower-case commands; wrong argument counts naming keys of the control traffic; non-UTF-8 keys; integers, nulls and nested arrays as arguments; truncated frames followed by close or by silence; arrays nested 10^2..10^6 deep; lengths 2^63-1, 2^64+5, negative, lone signs; a well-formed prefix followed by garbage; thousands of tiny frames; a command that makes the connection's own handler task panic), while 1-2 control connections run a model-checked SET/GET/DEL workload (C06's oracle, byte-exact replies). Oracle: the server process is alive afterwards; every control reply was right; a fresh connection is served; the store, dumped through the control channel, equals the model, which is changed only by well-formed SET/DEL (control traffic plus the well-formed commands inside hostile streams, on their own keys). Non-trivial = a scenario whose control connections verified commands while attacks were running; distinct = by (attack classes, payload hash). Every eighth scenario ends with an interlude in which every connection slot is taken by a live connection, 1-3 hostile peers connect, write and are reset (SO_LINGER 0) while they still wait in the listen backlog, and the slots are then freed so that the listener accepts sockets that are already dead; the interlude also puts the server process through two 30-90 ms descriptor shortages (accept fails with EMFILE and is retried); the server must still be running and serve a fresh connection.",
            assumptions: vec!["memory exhaustion by streaming gigabytes is not attempted", "the handler-panic attack uses the harness's storage wrapper (serve.rs: PanickyKv), which is the real handle plus a trigger; everything from the socket to the handler is the real code"],
            death_is_violation: false,
        },
        timing_dependent: false,
        run,
        worker,
    }
}

fn run(c: &Check, tier: Tier, seed: u64, t0: Instant) -> i32 {
    let n = ncpu() as u64;
    standard_run(c, tier, seed, t0, even_plans("", n, secs(tier.pick(900, 10_800))), n as usize, 20)
}

pub const ATTACKS: &[&str] = &[
    "random-bytes",
    "non-array-frames",
    "unknown-commands",
    "wrong-arg-counts",
    "non-utf8-keys",
    "wrong-arg-types",
    "truncated-then-close",
    "truncated-then-silence",
    "deep-nesting",
    "absurd-lengths",
    "wellformed-then-garbage",
    "many-tiny-frames",
    "handler-panic",
    "blocking-thread-panic",
];

/// Payload of an attack plus the well-formed commands it contains (they do change the store).
pub fn attack_payload(r: &mut Rng, class: &str, ctl_keys: &[Vec<u8>], atk_ns: &str, counter: &mut u64) -> (Vec<u8>, Vec<Cmd>) {
    let mut wf: Vec<Cmd> = Vec::new();
    let ck = |r: &mut Rng| -> Vec<u8> { if ctl_keys.is_empty() { b"k".to_vec() } else { r.pick(ctl_keys).clone() } };
    let bytes = match class {
        "random-bytes" => {
            let n = r.range(1, 5000) as usize;
            if r.chance(1, 2) {
                r.bytes(n)
            } else {
                (0..n).map(|_| *r.pick(b"+-:$*0123456789\r\n\r\nGETSDL \x00\xff")).collect()
            }
        }
        "non-array-frames" => {
            let opts: [&[u8]; 6] = [b"+OK\r\n", b":1\r\n", b"$3\r\nfoo\r\n", b"$-1\r\n", b"-ERR x\r\n", b"$3\r\nGET\r\n$1\r\nk\r\n"];
            let mut v = Vec::new();
            for _ in 0..r.range(1, 5) {
                let o: &[u8] = *r.pick(&opts[..]);
                v.extend_from_slice(o);
            }
            v
        }
        "unknown-commands" => {
            let k = ck(r);
            let opts: Vec<Vec<u8>> = vec![
                command(&[b"PING"]),
                command(&[b"get", &k]),
                command(&[b"set", &k, b"x"]),
                command(&[b"del", &k]),
                command(&[b"FLUSHALL"]),
                command(&[b"SETX", &k, b"x"]),
                command(&[b"", &k]),
                command(&[b" SET", &k, b"x"]),
                command(&[b"SET\r\n", &k, b"x"]),
                b"*0\r\n".to_vec(),
            ];
            r.pick(&opts).clone()
        }
        "wrong-arg-counts" => {
            let k = ck(r);
            let opts: Vec<Vec<u8>> = vec![
                command(&[b"SET", &k]),
                command(&[b"SET"]),
                command(&[b"SET", &k, b"x", b"y"]),
                command(&[b"GET"]),
                command(&[b"GET", &k, &k]),
                command(&[b"DEL"]),
                command(&[b"SET", &k, b"x", b"EX", b"10"]),
            ];
            r.pick(&opts).clone()
        }
        "non-utf8-keys" => {
            let bad: Vec<u8> = vec![0xff, 0xfe, b'k', 0x80];
            let k = ck(r);
            let opts: Vec<Vec<u8>> = vec![
                command(&[b"SET", &bad, b"x"]),
                command(&[b"GET", &bad]),
                command(&[b"DEL", &bad]),
                // a valid key first: DEL must not delete it and then fail on the second
                command(&[b"DEL", &k, &bad]),
                command(&[b"SET", &[0xc3], b"x"]),
            ];
            r.pick(&opts).clone()
        }
        "wrong-arg-types" => {
            let k = ck(r);
            let kb = crate::resp::encode(&RFrame::Bulk(k.clone()));
            let mut opts: Vec<Vec<u8>> = Vec::new();
            for arg in [&b":5\r\n"[..], b"$-1\r\n", b"*1\r\n$1\r\nk\r\n", b"+k\r\n", b"-k\r\n", b"*0\r\n"] {
                let mut v = b"*2\r\n$3\r\nGET\r\n".to_vec();
                v.extend_from_slice(arg);
                opts.push(v);
                let mut v = b"*3\r\n$3\r\nSET\r\n".to_vec();
                v.extend_from_slice(&kb);
                v.extend_from_slice(arg);
                opts.push(v);
                let mut v = b"*3\r\n$3\r\nDEL\r\n".to_vec();
                v.extend_from_slice(&kb);
                v.extend_from_slice(arg);
                opts.push(v);
                let mut v = b"*2\r\n".to_vec();
                v.extend_from_slice(arg);
                v.extend_from_slice(&kb);
                opts.push(v);
            }
            r.pick(&opts).clone()
        }
        "truncated-then-close" | "truncated-then-silence" => {
            let k = ck(r);
            let n = r.range(1, 300) as usize;
            let val = r.bytes(n);
            let full = command(&[b"SET", &k, &val]);
            let cut = r.range(1, full.len() as u64 - 1) as usize;
            full[..cut].to_vec()
        }
        "deep-nesting" => {
            let d = *r.pick(&[100usize, 1000, 10_000, 100_000, 300_000, 1_000_000]);
            let mut v = Vec::with_capacity(d * 4 + 8);
            for _ in 0..d {
                v.extend_from_slice(b"*1\r\n");
            }
            if r.chance(1, 2) {
                v.extend_from_slice(b"$3\r\nGET\r\n");
            }
            v
        }
        "absurd-lengths" => {
            let opts: [&[u8]; 14] = [
                b"$9223372036854775807\r\n",
                b"*9223372036854775807\r\n",
                b"*18446744073709551621\r\n$3\r\nGET\r\n",
                b"$18446744073709551621\r\nhello\r\n",
                b"$-5\r\n",
                b"*-1\r\n",
                b":-",
                b"$+",
                b"*2\r\n$3\r\nGET\r\n$99999999999\r\n",
                b"*2\r\n$3\r\nGET\r\n$18446744073709551617\r\nk\r\n",
                b"*4294967296\r\n",
                b"*3\r\n$3\r\nSET\r\n$1\r\nk\r\n$9223372036854775806\r\nx",
                b"$00000000000000000000000000000000000003\r\nfoo\r\n",
                b"*2\r\n$3\r\nGET\r\n$-1\r\n",
            ];
            r.pick(&opts).to_vec()
        }
        "wellformed-then-garbage" => {
            let n = r.range(1, 5);
            let pool: Vec<Vec<u8>> = (0..3).map(|i| format!("{}-{}", atk_ns, i).into_bytes()).collect();
            wf = gen_commands(r, &pool, n as usize, counter, false);
            let mut v: Vec<u8> = wf.iter().flat_map(|c| c.encode()).collect();
            v.extend_from_slice(*r.pick(&[&b"garbage\r\n"[..], b"*2\r\n$3\r\nGET\r\n:1\r\n", b"\x00\x00\x00", b"*1\r\n$4\r\nQUIT\r\n", b":-"]));
            v
        }
        "many-tiny-frames" => {
            let n = r.range(1000, 8000);
            let unit: &[u8] = *r.pick(&[&b"+\r\n"[..], b":1\r\n", b"$0\r\n\r\n", b"*0\r\n"]);
            let mut v = Vec::new();
            for _ in 0..n {
                v.extend_from_slice(unit);
            }
            v
        }
        "handler-panic" => {
            let mut v = command(&[b"GET", b"__panic_in_handler__"]);
            v.extend_from_slice(&command(&[b"GET", b"x"]));
            v
        }
        _ => {
            // blocking-thread-panic
            command(&[b"SET", b"__panic_in_blocking__", b"x"])
        }
    };
    (bytes, wf)
}

fn hostile_connection(port: u16, class: &str, payload: Vec<u8>, hold_ms: u64) -> (u64, bool) {
    if class == "truncated-then-close" {
        // the same truncated stream on two more short-lived connections
        for _ in 0..2 {
            if let Ok(mut s) = connect(port) {
                let _ = s.write_all(&payload);
            }
        }
    }
    // returns (bytes received, connection was closed by the server)
    let s = match connect(port) {
        Ok(s) => s,
        Err(_) => return (0, false),
    };
    let mut w = match s.try_clone() {
        Ok(w) => w,
        Err(_) => return (0, false),
    };
    let mut rx = Rx::new(s);
    // write in pieces; the server may close on us at any time, that is fine
    let mut o = 0;
    while o < payload.len() {
        let n = (payload.len() - o).min(65536);
        if w.write_all(&payload[o..o + n]).is_err() {
            break;
        }
        o += n;
        rx.poll();
    }
    let _ = w.flush();
    if class == "truncated-then-close" {
        drop(w);
        let _ = rx.s.shutdown(std::net::Shutdown::Write);
    }
    let deadline = Instant::now() + Duration::from_millis(hold_ms);
    while Instant::now() < deadline && !rx.eof && rx.err.is_none() {
        rx.poll();
    }
    (rx.buf.len() as u64, rx.eof || rx.err.is_some())
}

struct Env {
    srv: Server,
    ctl_models: Vec<HashMap<Vec<u8>, Vec<u8>>>,
    atk_model: HashMap<Vec<u8>, Vec<u8>>,
    atk_keys: std::collections::BTreeSet<Vec<u8>>,
    counter: u64,
    max_conn: usize,
}

/// A peer that is reset while it still waits in the listen backlog: every slot is taken by a live
/// connection, the hostile peer connects (the kernel completes the handshake), writes, and closes
/// with SO_LINGER 0 so that a RST goes out; then one slot is freed and the listener accepts a socket
/// that is already dead. Returns false if the slots could not all be taken (interlude skipped).
fn reset_in_backlog(port: u16, max_conn: usize, r: &mut Rng) -> bool {
    use std::os::unix::io::AsRawFd;
    let mut fillers: Vec<(std::net::TcpStream, Rx)> = Vec::new();
    for i in 0..max_conn {
        let s = match connect(port) {
            Ok(s) => s,
            Err(_) => return false,
        };
        let mut t = match s.try_clone() {
            Ok(t) => t,
            Err(_) => return false,
        };
        let mut rx = Rx::new(s);
        if t.write_all(&command(&[b"GET", format!("filler-{}", i).as_bytes()])).is_err() || rx.reply(Instant::now() + Duration::from_secs(3)).is_err() {
            return false;
        }
        fillers.push((t, rx));
    }
    for _ in 0..r.range(1, 3) {
        if let Ok(mut a) = connect(port) {
            let _ = a.write_all(*r.pick(&[&b"garbage\r\n"[..], &b"*1\r\n$4\r\nPING\r\n"[..], &b""[..], &b"*2\r\n$3\r\nGET\r\n$1\r\nk\r\n"[..]]));
            let lg = libc::linger { l_onoff: 1, l_linger: 0 };
            unsafe { libc::setsockopt(a.as_raw_fd(), libc::SOL_SOCKET, libc::SO_LINGER, &lg as *const _ as *const libc::c_void, std::mem::size_of::<libc::linger>() as libc::socklen_t) };
            drop(a);
        }
    }
    std::thread::sleep(Duration::from_millis(r.range(5, 30)));
    // free the slots one by one: the listener now accepts the dead sockets
    while let Some(f) = fillers.pop() {
        drop(f);
        std::thread::sleep(Duration::from_millis(r.range(0, 10)));
    }
    std::thread::sleep(Duration::from_millis(50));
    true
}

fn new_env(ctx: &Ctx, gen: u64, r: &mut Rng) -> Result<Env, String> {
    let dir = fresh_dir(&ctx.scratch, &format!("store{}", gen));
    let mut conf = Conf::default();
    conf.max_file_size = *r.pick(&[4096u64, 65_536, 2 * 1024 * 1024 * 1024]);
    conf.conc = 2;
    // a small connection limit on purpose: an attack that makes a connection's slot leak (a
    // handler that never ends) must show within a few scenarios as a fresh connection that is
    // never served
    let max_conn = *r.pick(&[8usize, 8, 12]);
    // the listener's retry of a failed accept: from 5 ms, giving up (by design) only past 10 s
    let srv = Server::spawn(&dir, &conf, max_conn, 2, &["backoff:5,10000".to_string()])?;
    Ok(Env { srv, ctl_models: vec![HashMap::new(), HashMap::new()], atk_model: HashMap::new(), atk_keys: Default::default(), counter: 0, max_conn })
}

fn ctl_pool(i: usize) -> Vec<Vec<u8>> {
    (0..4).map(|k| format!("ctl{}-key{}", i, k).into_bytes()).collect()
}

fn worker(ctx: &Ctx, out: &mut Out) {
    let mut r0 = Rng::derive(ctx.seed, 0xC10_FFFF_0000 ^ ctx.shard);
    let mut gen = 0u64;
    let mut env = match new_env(ctx, gen, &mut r0) {
        Ok(e) => e,
        Err(e) => {
            out.inconclusive.push(format!("could not start the server child: {}", e));
            return;
        }
    };
    for case in ctx.cases(ctx.tier.pick(640, 8000)) {
        ctx.checkpoint(out);
        ctx.breadcrumb(case, "scenario");
        let mut r = Rng::derive(ctx.seed, 0xC10_0000_0000 ^ case);
        let n_atk = r.range(1, 4) as usize;
        let n_ctl = r.range(1, 2) as usize;
        let mut classes: Vec<&str> = Vec::new();
        let mut payloads: Vec<Vec<u8>> = Vec::new();
        let mut wf_all: Vec<Vec<Cmd>> = Vec::new();
        let all_ctl_keys: Vec<Vec<u8>> = (0..2).flat_map(ctl_pool).collect();
        for a in 0..n_atk {
            // the scenario number picks the first class so that all classes come up evenly
            let class = if a == 0 { ATTACKS[(case as usize) % ATTACKS.len()] } else { *r.pick(ATTACKS) };
            let ns = format!("atk{}-{}", case, a);
            let (p, wf) = attack_payload(&mut r, class, &all_ctl_keys, &ns, &mut env.counter);
            classes.push(class);
            payloads.push(p);
            wf_all.push(wf);
        }
        let ph = crate::orch::fnv(&payloads.concat());
        // control workloads, generated up front
        let mut ctl_cmds: Vec<Vec<Cmd>> = Vec::new();
        for i in 0..n_ctl {
            let n = r.range(15, 60) as usize;
            ctl_cmds.push(gen_commands(&mut r, &ctl_pool(i), n, &mut env.counter, false));
        }
        let port = env.srv.port;
        // run attacks and control traffic together
        let mut atk_threads = Vec::new();
        for (a, p) in payloads.iter().enumerate() {
            let class = classes[a].to_string();
            let p = p.clone();
            let hold = if class == "truncated-then-silence" { 400 } else { *r.pick(&[20u64, 100, 250]) };
            let delay = r.range(0, 15);
            atk_threads.push(std::thread::spawn(move || {
                std::thread::sleep(Duration::from_millis(delay));
                hostile_connection(port, &class, p, hold)
            }));
        }
        let mut ctl_threads = Vec::new();
        for i in 0..n_ctl {
            let cmds = std::mem::take(&mut ctl_cmds[i]);
            let mut model = std::mem::take(&mut env.ctl_models[i]);
            let mut cr = Rng::derive(ctx.seed ^ case, 0xC7 + i as u64);
            ctl_threads.push(std::thread::spawn(move || {
                let mut o = Out::default();
                let seg = cr.weighted(&[10, 40, 25, 25]);
                let depth = cr.weighted(&[50, 35, 15]);
                let res = run_connection(port, &mut cr, &cmds, &mut model, seg, depth, &mut o);
                (res.map(|_| ()).map_err(|f| (f.sig, f.desc)), model, o, cmds.len())
            }));
        }
        let mut atk_closed = 0;
        for t in atk_threads {
            if let Ok((_, closed)) = t.join() {
                if closed {
                    atk_closed += 1;
                }
            }
        }
        let mut failed: Option<(String, String)> = None;
        let mut verified = 0u64;
        for (i, t) in ctl_threads.into_iter().enumerate() {
            match t.join() {
                Ok((res, model, o, n)) => {
                    env.ctl_models[i] = model;
                    verified += o.counters.get("commands_verified").cloned().unwrap_or(0);
                    if let Err((sig, desc)) = res {
                        failed = Some((format!("control-{}", sig), format!("control connection {} ({} commands) while attacks {:?} were running: {}", i, n, classes, desc)));
                    }
                }
                Err(_) => out.inconclusive.push("control thread panicked".into()),
            }
        }
        out.evaluations += 1;
        out.count("hostile_connections", n_atk as u64);
        out.count("hostile_connections_closed_by_server", atk_closed);
        out.count("control_commands_verified_during_attacks", verified);
        for c in &classes {
            out.count(&format!("attack_{}", c), 1);
        }
        // the well-formed commands inside hostile streams do count
        for wf in &wf_all {
            for c in wf {
                c.apply(&mut env.atk_model);
                match c {
                    Cmd::Set(k, _) | Cmd::Get(k) => {
                        env.atk_keys.insert(k.clone());
                    }
                    Cmd::Del(ks) => env.atk_keys.extend(ks.iter().cloned()),
                }
            }
        }
        // every eighth scenario ends with peers that are reset while they wait in the listen backlog
        if case % 8 == 3 && env.srv.ended().is_none() {
            if reset_in_backlog(port, env.max_conn, &mut r) {
                out.count("interludes_with_peers_reset_in_the_backlog", 1);
                classes.push("reset-in-backlog");
            } else {
                out.count("backlog_interludes_skipped_slots_not_free", 1);
            }
            // ... and with two short descriptor shortages in the server process (what one client that
            // opens connections by the hundred causes): accept() fails and is retried; over the
            // life of the server such episodes come and go any number of times
            for w in 0..2 {
                if !env.srv.fd_shortage_begin(r.range(30, 90)) {
                    break;
                }
                let mut c = connect(port).ok().and_then(|s| s.try_clone().ok().map(|t| (t, Rx::new(s))));
                if let Some((t, _)) = c.as_mut() {
                    let _ = t.write_all(&command(&[b"GET", format!("shortage-{}", w).as_bytes()]));
                }
                if !env.srv.fd_shortage_end() {
                    break;
                }
                out.count("descriptor_shortage_windows", 1);
                if let Some((_, rx)) = c.as_mut() {
                    if rx.reply(Instant::now() + Duration::from_secs(20)).is_ok() {
                        out.count("clients_served_after_a_descriptor_shortage", 1);
                    }
                }
            }
        }
        // verdicts
        let dead = env.srv.ended();
        if let Some(st) = &dead {
            out.count("server_deaths", 1);
            out.violation("server-died", format!("case {}: the server process ended ({}) during attacks {:?} (first payload {})", case, st, classes, show(&payloads[0])), ctx.replay(case, json!({"attacks": classes, "payload_head": show(&payloads[0])})));
        } else if let Some((sig, desc)) = failed {
            out.violation(&sig, format!("case {}: {}", case, desc), ctx.replay(case, json!({"attacks": classes})));
        } else {
            // a fresh connection must be served
            let mut probe_model = std::mem::take(&mut env.ctl_models[0]);
            let probe = vec![Cmd::Set(b"ctl0-key0".to_vec(), format!("probe-{}", case).into_bytes()), Cmd::Get(b"ctl0-key0".to_vec())];
            let mut pr = Rng::new(case);
            let mut o = Out::default();
            let res = run_connection(port, &mut pr, &probe, &mut probe_model, 3, 0, &mut o);
            env.ctl_models[0] = probe_model;
            if let Err(f) = res {
                out.violation("fresh-connection-not-served", format!("case {}: after attacks {:?} a new connection was not served correctly: {}", case, classes, f.desc), ctx.replay(case, json!({"attacks": classes})));
            } else {
                out.count("fresh_connections_served_after_attack", 1);
                if verified > 0 {
                    out.class(format!("{}-{:016x}", classes.join("+"), ph));
                }
                out.class_counter(&format!("attack:{}", classes[0]));
            }
        }
        // the store against the model, every few scenarios and whenever something went wrong
        if dead.is_none() && (case % 4 == 0 || !out.violations.is_empty()) {
            let mut keys: Vec<Vec<u8>> = all_ctl_keys.clone();
            keys.extend(env.atk_keys.iter().cloned());
            keys.push(b"k".to_vec());
            keys.push(b"x".to_vec());
            keys.push(b"__panic_in_blocking__".to_vec());
            match env.srv.dump(&keys) {
                Ok(d) => {
                    for k in &keys {
                        let want = if k.starts_with(b"ctl0") { env.ctl_models[0].get(k) } else if k.starts_with(b"ctl1") { env.ctl_models[1].get(k) } else { env.atk_model.get(k) };
                        let got = d.get(k).cloned().unwrap_or(Ok(None));
                        out.count("stored_keys_compared", 1);
                        if got != Ok(want.cloned()) {
                            out.violation("store-changed-by-malformed-input", format!("case {}: key {} holds {:?} in the store but only well-formed SET/DEL may change it and they leave it at {:?} (attacks {:?})", case, show(k), got.map(|o| o.map(|v| show(&v))), want.map(|v| show(v)), classes), ctx.replay(case, json!({"attacks": classes})));
                            break;
                        }
                    }
                }
                Err(e) => out.inconclusive.push(format!("dump failed: {}", e)),
            }
        }
        if out.samples.len() < 3 && (case % 53 == 1 || out.samples.is_empty()) {
            out.sample(json!({"case": case, "attacks": classes, "payload_heads": payloads.iter().map(|p| show(p)).collect::<Vec<_>>(), "control_commands_verified": verified}));
        }
        if dead.is_some() || !out.violations.is_empty() {
            // start over with a fresh server so that the remaining scenarios still run
            gen += 1;
            if out.violations.len() > 6 {
                break;
            }
            match new_env(ctx, gen, &mut r0) {
                Ok(e) => {
                    let old = std::mem::replace(&mut env, e);
                    old.srv.stop();
                }
                Err(e) => {
                    out.inconclusive.push(format!("could not restart the server child: {}", e));
                    return;
                }
            }
        }
    }
    env.srv.stop();
}

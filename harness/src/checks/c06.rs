//! C06 - over the network SET/GET/DEL answer exactly as the map model, in order.

use std::collections::HashMap;
use std::io::Write;
use std::time::{Duration, Instant};

use serde_json::json;

use super::{ncpu, secs, standard_run, Check};
use crate::netcli::{connect, ReadErr, Rx, Server};
use crate::orch::{even_plans, show, CheckSpec, Ctx, Out, Tier};
use crate::resp::{command, encode, RFrame};
use crate::rng::Rng;
use crate::store::{fresh_dir, Conf};

pub fn check() -> Check {
    Check {
        spec: CheckSpec {
            id: "C06",
            level: "exploration",
            rule: "one case = one TCP connection to a child process running the real Server over a real store: a generated stream of 20-200 well-formed SET/GET/DEL commands (keys: arbitrary UTF-8 incl. empty, multi-byte, CR, LF, NUL; values: arbitrary bytes 0 B..256 KB; DEL with 1-4 keys incl. repeats) is sent under a drawn segmentation (one byte at a time, random cuts, frame-aligned, all at once; optional pauses between segments so that the server really sees partial frames) and pipelining depth (1, 2-8, whole stream, whole stream followed by a half-close of the client's sending side before it reads anything, or 'overhang': each write carries the rest of one request and the first bytes of the next and the client waits for the reply), and the received byte stream must equal, byte for byte, the reply stream the map model produces with the reference encoder (+OK, bulk, $-1, :n with every DEL key counted as it is deleted). Every eighth case adds a slow reader: one connection pipelines a SET of a 9-256 KB value and enough GETs of it for 12 MB of replies, pauses 0.3-0.9 s with a 32 KB receive buffer so that the server's socket writes are accepted only in part, then reads and compares everything. Every stream starts by deleting its key pool, and is sent 2-3 times under different (segmentation, depth) settings. At the end of a worker the store is dumped through the child's control channel and compared with the model. Non-trivial/distinct = distinct (request stream hash, segmentation class, depth class) with at least one cut inside a frame or depth > 1.",
            assumptions: vec!["the receiver-side split of TCP segments is influenced (TCP_NODELAY, pauses), not controlled; C08 controls it exactly at the Connection layer", "one server child per worker process; connections of one worker run one after another, so the model is a plain map"],
            death_is_violation: false,
        },
        timing_dependent: false,
        run,
        worker,
    }
}

fn run(c: &Check, tier: Tier, seed: u64, t0: Instant) -> i32 {
    let n = ncpu() as u64;
    standard_run(c, tier, seed, t0, even_plans("", n, secs(tier.pick(900, 10_800))), n as usize, 20)
}

pub fn key_pool(r: &mut Rng) -> Vec<Vec<u8>> {
    let mut pool: Vec<Vec<u8>> = vec![
        b"".to_vec(),
        b"a".to_vec(),
        b"ab".to_vec(),
        b"key".to_vec(),
        b"k\r\n".to_vec(),
        b"\r".to_vec(),
        b"\n\n".to_vec(),
        "nul\0byte".as_bytes().to_vec(),
        "\u{e9}\u{4e16}\u{1f600}".as_bytes().to_vec(),
        b"$5\r\nhello\r\n".to_vec(),
        b"*1\r\n".to_vec(),
        vec![b'K'; 300],
        b"SET".to_vec(),
        b"-1".to_vec(),
    ];
    r.shuffle(&mut pool);
    let n = r.range(2, 7) as usize;
    pool.truncate(n);
    pool
}

pub fn draw_value(r: &mut Rng, counter: u64, big_ok: bool) -> Vec<u8> {
    let size = match r.weighted(&[8, 50, 25, if big_ok { 12 } else { 0 }, if big_ok { 3 } else { 0 }, if big_ok { 2 } else { 0 }]) {
        0 => 0,
        1 => r.range(1, 40) as usize,
        2 => r.range(41, 1200) as usize,
        3 => r.range(7000, 20_000) as usize,
        4 => r.range(60_000, 70_000) as usize,
        _ => r.range(200_000, 262_144) as usize,
    };
    let mut v = crate::seqeng::make_value(r, counter, size);
    if size >= 4 && r.chance(1, 3) {
        let p = r.usize_below(size - 1);
        v[p] = b'\r';
        v[p + 1] = b'\n';
        v[size - 1] = *r.pick(&[b'\r', b'\n', 0u8]);
    }
    v
}

pub enum Cmd {
    Set(Vec<u8>, Vec<u8>),
    Get(Vec<u8>),
    Del(Vec<Vec<u8>>),
}

impl Cmd {
    pub fn encode(&self) -> Vec<u8> {
        match self {
            Cmd::Set(k, v) => command(&[b"SET", k, v]),
            Cmd::Get(k) => command(&[b"GET", k]),
            Cmd::Del(ks) => {
                let mut parts: Vec<&[u8]> = vec![b"DEL"];
                for k in ks {
                    parts.push(k);
                }
                command(&parts)
            }
        }
    }
    pub fn brief(&self) -> String {
        match self {
            Cmd::Set(k, v) => format!("SET {} <{}B>", show(k), v.len()),
            Cmd::Get(k) => format!("GET {}", show(k)),
            Cmd::Del(ks) => format!("DEL {}", ks.iter().map(|k| show(k)).collect::<Vec<_>>().join(" ")),
        }
    }
    /// Apply to the model and return the reply the server must send.
    pub fn apply(&self, m: &mut HashMap<Vec<u8>, Vec<u8>>) -> RFrame {
        match self {
            Cmd::Set(k, v) => {
                m.insert(k.clone(), v.clone());
                RFrame::Simple(b"OK".to_vec())
            }
            Cmd::Get(k) => match m.get(k) {
                Some(v) => RFrame::Bulk(v.clone()),
                None => RFrame::Null,
            },
            Cmd::Del(ks) => {
                let mut n = 0;
                for k in ks {
                    if m.remove(k).is_some() {
                        n += 1;
                    }
                }
                RFrame::Int(n)
            }
        }
    }
}

pub fn gen_commands(r: &mut Rng, pool: &[Vec<u8>], n: usize, counter: &mut u64, big_ok: bool) -> Vec<Cmd> {
    let mut v = Vec::new();
    for _ in 0..n {
        let k = r.pick(pool).clone();
        match r.weighted(&[45, 35, 20]) {
            0 => {
                *counter += 1;
                v.push(Cmd::Set(k, draw_value(r, *counter, big_ok)));
            }
            1 => v.push(Cmd::Get(k)),
            _ => {
                let m = r.range(1, 4);
                let mut ks = vec![k];
                for _ in 1..m {
                    // repeats on purpose: DEL k k must answer 1
                    ks.push(if r.chance(1, 3) { ks[0].clone() } else { r.pick(pool).clone() });
                }
                v.push(Cmd::Del(ks));
            }
        }
    }
    v
}

pub struct Failure {
    pub sig: &'static str,
    pub desc: String,
}

/// Send `cmds` on a fresh connection and compare the reply bytes.
pub fn run_connection(port: u16, r: &mut Rng, cmds: &[Cmd], model: &mut HashMap<Vec<u8>, Vec<u8>>, seg_class: usize, depth_class: usize, out: &mut Out) -> Result<(bool, usize), Failure> {
    let reqs: Vec<Vec<u8>> = cmds.iter().map(|c| c.encode()).collect();
    let replies: Vec<Vec<u8>> = cmds.iter().map(|c| encode(&c.apply(model))).collect();
    let total_req: usize = reqs.iter().map(|x| x.len()).sum();
    let stream = connect(port).map_err(|e| Failure { sig: "connect-failed", desc: format!("connect failed: {}", e) })?;
    let mut tx = stream.try_clone().map_err(|e| Failure { sig: "connect-failed", desc: e.to_string() })?;
    let mut rx = Rx::new(stream);
    if depth_class == 3 {
        // "overhang": every write carries the rest of request i plus the first bytes of request
        // i+1, and the client waits for reply i before it sends any more. The reply to a request
        // that was sent completely must not depend on what else the segment carried.
        let mut sent_prefix = 0usize;
        for i in 0..cmds.len() {
            let mut payload = reqs[i][sent_prefix..].to_vec();
            let next_prefix = if i + 1 < cmds.len() { r.range(1, (reqs[i + 1].len() as u64 - 1).min(64)) as usize } else { 0 };
            if next_prefix > 0 {
                payload.extend_from_slice(&reqs[i + 1][..next_prefix]);
            }
            if let Err(e) = tx.write_all(&payload) {
                return Err(Failure { sig: "connection-closed-on-wellformed-request", desc: format!("command #{} ({}): write failed: {}", i, cmds[i].brief(), e) });
            }
            let res = rx.need(replies[i].len(), Instant::now() + Duration::from_secs(20));
            let got: Vec<u8> = rx.buf.drain(..replies[i].len().min(rx.buf.len())).collect();
            if got != replies[i] {
                let (sig, how) = match res {
                    Ok(()) => ("wrong-reply", "the reply bytes differ"),
                    Err(ReadErr::Timeout) => ("no-reply", "no (complete) reply within 20 s"),
                    _ => ("connection-closed-on-wellformed-request", "the server closed the connection"),
                };
                return Err(Failure { sig, desc: format!("command #{} of {} ({}) was sent completely, followed in the same segment by the first {} bytes of the next request; the client waits for this reply before sending more: {}; expected {} but received {}", i, cmds.len(), cmds[i].brief(), next_prefix, how, show(&replies[i]), show(&got)) });
            }
            out.count("commands_verified", 1);
            sent_prefix = next_prefix;
        }
        out.count("request_bytes", total_req as u64);
        return Ok((true, 1));
    }
    let depth = match depth_class {
        0 => 1,
        1 => r.range(2, 8) as usize,
        _ => cmds.len(),
    };
    // class 4: everything is sent, then the client closes its sending side (a legal half-close) and
    // only then reads: every request was sent completely, so every reply is still owed
    let half_close = depth_class == 4;
    let mut cut_inside = false;
    let mut i = 0;
    while i < cmds.len() {
        let j = (i + depth).min(cmds.len());
        let batch: Vec<u8> = reqs[i..j].concat();
        let expect: Vec<u8> = replies[i..j].concat();
        // segmentation of this batch
        let mut cuts: Vec<usize> = Vec::new();
        let mut pause = 0u64;
        match seg_class {
            0 => {
                // one byte at a time where that is affordable, else small random pieces
                if batch.len() <= 1500 {
                    cuts = (1..batch.len()).collect();
                    pause = *r.pick(&[0u64, 0, 30]);
                } else {
                    let mut o = 0;
                    while o < batch.len() {
                        o += r.range(1, 2000) as usize;
                        cuts.push(o);
                    }
                }
                cut_inside = true;
            }
            1 => {
                let n = r.range(1, 12);
                for _ in 0..n {
                    cuts.push(r.usize_below(batch.len().max(1)));
                }
                cuts.sort();
                cuts.dedup();
                pause = *r.pick(&[0u64, 100, 1000]);
                cut_inside = true;
            }
            2 => {
                let mut o = 0;
                for q in &reqs[i..j] {
                    o += q.len();
                    cuts.push(o);
                }
                pause = *r.pick(&[0u64, 200]);
            }
            _ => {}
        }
        // write from a helper thread so that a full pipeline cannot dead-lock against our own reading
        let mut txc = tx.try_clone().map_err(|e| Failure { sig: "connect-failed", desc: e.to_string() })?;
        let b2 = batch.clone();
        let c2 = cuts.clone();
        let w = std::thread::spawn(move || {
            let r = crate::netcli::write_segments(&mut txc, &b2, &c2, pause);
            if half_close {
                let _ = txc.shutdown(std::net::Shutdown::Write);
            }
            r
        });
        let deadline = Instant::now() + Duration::from_secs(20);
        let res = rx.need(expect.len(), deadline);
        let wres = w.join();
        let got: Vec<u8> = rx.buf.drain(..expect.len().min(rx.buf.len())).collect();
        if got != expect {
            // find the first command whose reply differs
            let mut o = 0;
            let mut which = i;
            for (k, rep) in replies[i..j].iter().enumerate() {
                if got.len() < o + rep.len() || got[o..o + rep.len()] != rep[..] {
                    which = i + k;
                    break;
                }
                o += rep.len();
            }
            let how = match res {
                Err(ReadErr::Eof) => "the server closed the connection",
                Err(ReadErr::Reset(_)) => "the connection was reset",
                Err(ReadErr::Timeout) => "no (complete) reply within 20 s",
                Ok(()) => "the reply bytes differ",
            };
            let sig = match res {
                Ok(()) => "wrong-reply",
                Err(ReadErr::Timeout) => "no-reply",
                _ => "connection-closed-on-wellformed-request",
            };
            return Err(Failure {
                sig,
                desc: format!(
                    "command #{} of {} ({}), segmentation class {}, pipelining depth {}: {}; expected reply {} but received {} (write side: {:?})",
                    which,
                    cmds.len(),
                    cmds[which].brief(),
                    seg_class,
                    depth,
                    how,
                    show(&replies[which]),
                    show(&got[o.min(got.len())..]),
                    wres.map(|x| x.map_err(|e| e.to_string()))
                ),
            });
        }
        out.count("commands_verified", (j - i) as u64);
        i = j;
    }
    // nothing more may arrive
    std::thread::sleep(Duration::from_millis(2));
    rx.poll();
    if !rx.buf.is_empty() {
        return Err(Failure { sig: "extra-reply-bytes", desc: format!("after all {} replies the server sent more bytes: {}", cmds.len(), show(&rx.buf)) });
    }
    let _ = tx.flush();
    if half_close {
        out.count("connections_half_closed_before_reading", 1);
        if matches!(rx.drain(Instant::now() + Duration::from_secs(5)), ReadErr::Eof) && rx.buf.is_empty() {
            out.count("half_closed_connections_ended_by_the_server_after_the_last_reply", 1);
        }
    }
    out.count("request_bytes", total_req as u64);
    Ok((cut_inside || depth > 1, depth))
}

/// A client that pipelines many GETs of one large value and does not read for a while: the replies
/// (12 MB and more) fill the socket buffers of both sides, so the server's writes are accepted by the
/// kernel only in part and its handler has to come back with the rest. Every reply is still owed
/// byte for byte.
fn slow_reader(port: u16, r: &mut Rng, model: &mut HashMap<Vec<u8>, Vec<u8>>, counter: &mut u64, out: &mut Out) -> Result<Vec<u8>, Failure> {
    use std::os::unix::io::AsRawFd;
    let key = b"slow-reader-key".to_vec();
    *counter += 1;
    let size = *r.pick(&[9_000usize, 65_536, 70_000, 200_000, 262_144]);
    let v = crate::seqeng::make_value(r, *counter, size);
    let n_gets = 12_000_000 / (size + 16) + 1;
    let stream = connect(port).map_err(|e| Failure { sig: "connect-failed", desc: format!("connect failed: {}", e) })?;
    let sz: libc::c_int = 32 * 1024;
    unsafe { libc::setsockopt(stream.as_raw_fd(), libc::SOL_SOCKET, libc::SO_RCVBUF, &sz as *const _ as *const libc::c_void, std::mem::size_of::<libc::c_int>() as u32) };
    let mut tx = stream.try_clone().map_err(|e| Failure { sig: "connect-failed", desc: e.to_string() })?;
    let mut rx = Rx::new(stream);
    let mut req = Cmd::Set(key.clone(), v.clone()).encode();
    for _ in 0..n_gets {
        req.extend_from_slice(&Cmd::Get(key.clone()).encode());
    }
    req.extend_from_slice(&Cmd::Get(b"slow-reader-absent".to_vec()).encode());
    model.insert(key.clone(), v.clone());
    let w = std::thread::spawn(move || tx.write_all(&req).map(|_| tx));
    std::thread::sleep(Duration::from_millis(r.range(300, 900)));
    let one = encode(&RFrame::Bulk(v.clone()));
    let deadline = Instant::now() + Duration::from_secs(60);
    let mut expect_next = |rx: &mut Rx, want: &[u8], what: String| -> Result<(), Failure> {
        let res = rx.need(want.len(), deadline);
        let got: Vec<u8> = rx.buf.drain(..want.len().min(rx.buf.len())).collect();
        if got != want {
            let at = got.iter().zip(want.iter()).position(|(a, b)| a != b).unwrap_or(got.len().min(want.len()));
            let (sig, how) = match res {
                Ok(()) => ("wrong-reply", "the reply bytes differ"),
                Err(ReadErr::Timeout) => ("no-reply", "no (complete) reply within 60 s"),
                _ => ("connection-closed-on-wellformed-request", "the server closed the connection"),
            };
            return Err(Failure { sig, desc: format!("slow reader ({} pipelined GETs of a {} B value, read after a pause): {}: {}; first difference at byte {} of {}", n_gets, size, what, how, at, want.len()) });
        }
        Ok(())
    };
    expect_next(&mut rx, b"+OK\r\n", "reply to the SET".into())?;
    for i in 0..n_gets {
        expect_next(&mut rx, &one, format!("GET reply #{}", i))?;
    }
    expect_next(&mut rx, b"$-1\r\n", "reply to the GET of an absent key".into())?;
    let _ = w.join();
    out.count("slow_reader_connections", 1);
    out.count("commands_verified", n_gets as u64 + 2);
    out.count("reply_bytes_left_unread_before_reading", (n_gets * one.len()) as u64);
    Ok(key)
}

fn worker(ctx: &Ctx, out: &mut Out) {
    let mut r0 = Rng::derive(ctx.seed, 0xC06_FFFF_0000 ^ ctx.shard);
    let dir = fresh_dir(&ctx.scratch, "store");
    let mut conf = Conf::default();
    conf.max_file_size = *r0.pick(&[300u64, 4096, 65_536, 2 * 1024 * 1024 * 1024]);
    conf.conc = *r0.pick(&[1usize, 2, 4]);
    conf.cache = *r0.pick(&[1usize, 256]);
    let mut srv = match Server::spawn(&dir, &conf, 64, 2, &[]) {
        Ok(s) => s,
        Err(e) => {
            out.inconclusive.push(format!("could not start the server child: {}", e));
            return;
        }
    };
    let mut model: HashMap<Vec<u8>, Vec<u8>> = HashMap::new();
    let mut counter = 0u64;
    let mut all_keys: std::collections::BTreeSet<Vec<u8>> = Default::default();
    'cases: for case in ctx.cases(ctx.tier.pick(240, 6000)) {
        ctx.checkpoint(out);
        ctx.breadcrumb(case, "connection");
        let mut r = Rng::derive(ctx.seed, 0xC06_0000_0000 ^ case);
        let pool = key_pool(&mut r);
        all_keys.extend(pool.iter().cloned());
        let n = r.range(20, ctx.tier.pick(120, 200)) as usize;
        let big_ok = r.chance(1, 5);
        let mut cmds: Vec<Cmd> = vec![Cmd::Del(pool.clone())];
        cmds.extend(gen_commands(&mut r, &pool, n, &mut counter, big_ok));
        let sh = crate::orch::fnv(&cmds.iter().flat_map(|c| c.encode()).collect::<Vec<u8>>());
        let runs = r.range(2, 3);
        for _ in 0..runs {
            let seg_class = r.weighted(&[25, 35, 20, 20]);
            let depth_class = r.weighted(&[24, 24, 20, 18, 14]);
            out.evaluations += 1;
            out.count("connections", 1);
            match run_connection(srv.port, &mut r, &cmds, &mut model, seg_class, depth_class, out) {
                Ok((nontrivial, depth)) => {
                    out.class_counter(&format!("seg{}|depth{}", seg_class, depth_class));
                    if nontrivial {
                        out.class(format!("{:016x}-s{}-d{}", sh, seg_class, depth.min(9)));
                    }
                }
                Err(f) => {
                    let dead = srv.ended();
                    out.violation(f.sig, format!("case {}: {}{}", case, f.desc, dead.map(|d| format!(" [server process ended: {}]", d)).unwrap_or_default()), ctx.replay(case, json!({"commands_head": cmds.iter().take(30).map(|c| c.brief()).collect::<Vec<_>>()})));
                    break 'cases;
                }
            }
        }
        if case % 8 == 5 {
            ctx.breadcrumb(case, "slow reader");
            out.evaluations += 1;
            match slow_reader(srv.port, &mut r, &mut model, &mut counter, out) {
                Ok(k) => {
                    all_keys.insert(k);
                }
                Err(f) => {
                    let dead = srv.ended();
                    out.violation(f.sig, format!("case {}: {}{}", case, f.desc, dead.map(|d| format!(" [server process ended: {}]", d)).unwrap_or_default()), ctx.replay(case, json!({"slow_reader": true})));
                    break 'cases;
                }
            }
        }
        out.max("largest_value", cmds.iter().map(|c| match c { Cmd::Set(_, v) => v.len() as u64, _ => 0 }).max().unwrap_or(0));
        if out.samples.len() < 2 && (case % 97 == 3 || out.samples.is_empty()) {
            let mut m2 = HashMap::new();
            out.sample(json!({"case": case, "pairs_head": cmds.iter().take(10).map(|c| { let rep = encode(&c.apply(&mut m2)); json!([c.brief(), show(&rep)]) }).collect::<Vec<_>>()}));
        }
    }
    // the store itself, through the control channel
    if out.violations.is_empty() {
        let keys: Vec<Vec<u8>> = all_keys.iter().cloned().collect();
        match srv.dump(&keys) {
            Ok(d) => {
                for k in &keys {
                    out.count("stored_keys_compared", 1);
                    let got = d.get(k).cloned().unwrap_or(Ok(None));
                    if got != Ok(model.get(k).cloned()) {
                        out.violation("store-differs-from-model", format!("after all connections key {} holds {:?} in the store but the model says {:?}", show(k), got.map(|o| o.map(|v| v.len())), model.get(k).map(|v| v.len())), ctx.replay(0, json!({})));
                        break;
                    }
                }
            }
            Err(e) => out.inconclusive.push(format!("dump failed: {}", e)),
        }
    }
    srv.stop();
}

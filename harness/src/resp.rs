//! Reference RESP codec, independent of /repo. Numbers are read with i128 arithmetic, arrays with an
//! explicit stack (no recursion), and the leniencies of the implementation under test that the
//! properties do not forbid are spelled out here:
//!   * a number may carry a leading '+';
//!   * a line ends at the first '\r' followed by ANY byte (the byte after '\r' is not checked);
//!   * a bulk payload is followed by ANY two bytes;
//!   * "$-1\r?" is the null.
//! Everything else that the implementation accepts but this decoder does not is reported.

#![allow(dead_code)]

use bitcask::net::frame::Frame;

#[derive(Clone, Debug, PartialEq, Eq)]
pub enum RFrame {
    Simple(Vec<u8>),
    Error(Vec<u8>),
    Int(i64),
    Bulk(Vec<u8>),
    Null,
    Array(Vec<RFrame>),
}

#[derive(Clone, Debug, PartialEq, Eq)]
pub enum RefOut {
    Frame(RFrame, usize),
    Incomplete,
    Reject,
}

enum Num {
    Ok(i128, usize),
    Incomplete,
    Reject,
}

/// sign? digits+ '\r' any  ->  (value, bytes consumed)
fn ref_number(b: &[u8], mut o: usize) -> Num {
    let start = o;
    if o >= b.len() {
        return Num::Incomplete;
    }
    let mut neg = false;
    if b[o] == b'-' || b[o] == b'+' {
        neg = b[o] == b'-';
        o += 1;
    }
    let ds = o;
    let mut v: i128 = 0;
    let mut too_big = false;
    while o < b.len() && b[o].is_ascii_digit() {
        if v < (1i128 << 100) {
            v = v * 10 + (b[o] - b'0') as i128;
        } else {
            too_big = true;
        }
        o += 1;
    }
    if o >= b.len() {
        return Num::Incomplete;
    }
    if o == ds || b[o] != b'\r' {
        return Num::Reject;
    }
    if o + 1 >= b.len() {
        return Num::Incomplete;
    }
    if too_big {
        return Num::Reject;
    }
    Num::Ok(if neg { -v } else { v }, o + 2 - start)
}

/// bytes up to the first '\r' (no '\n' before it), then any byte
fn ref_line(b: &[u8], o: usize) -> Result<Option<(Vec<u8>, usize)>, ()> {
    let mut i = o;
    while i < b.len() {
        match b[i] {
            b'\r' => {
                if i + 1 >= b.len() {
                    return Ok(None);
                }
                return Ok(Some((b[o..i].to_vec(), i + 2 - o)));
            }
            b'\n' => {
                // the implementation looks at every byte but the last one
                if i + 1 >= b.len() {
                    return Ok(None);
                }
                return Err(());
            }
            _ => i += 1,
        }
    }
    Ok(None)
}

pub fn ref_parse(b: &[u8]) -> RefOut {
    // explicit stack of (remaining children, collected children)
    let mut stack: Vec<(u64, Vec<RFrame>)> = Vec::new();
    let mut o = 0usize;
    loop {
        // read one non-array frame or an array header
        if o >= b.len() {
            return RefOut::Incomplete;
        }
        let t = b[o];
        o += 1;
        let mut done: Option<RFrame> = None;
        match t {
            b'+' | b'-' => match ref_line(b, o) {
                Err(()) => return RefOut::Reject,
                Ok(None) => return RefOut::Incomplete,
                Ok(Some((l, n))) => {
                    o += n;
                    done = Some(if t == b'+' { RFrame::Simple(l) } else { RFrame::Error(l) });
                }
            },
            b':' => match ref_number(b, o) {
                Num::Incomplete => return RefOut::Incomplete,
                Num::Reject => return RefOut::Reject,
                Num::Ok(v, n) => {
                    if v < i64::MIN as i128 || v > i64::MAX as i128 {
                        return RefOut::Reject;
                    }
                    o += n;
                    done = Some(RFrame::Int(v as i64));
                }
            },
            b'$' => {
                if o >= b.len() {
                    return RefOut::Incomplete;
                }
                if b[o] == b'-' {
                    match ref_line(b, o) {
                        Err(()) => return RefOut::Reject,
                        Ok(None) => return RefOut::Incomplete,
                        Ok(Some((l, n))) => {
                            if l != b"-1" {
                                return RefOut::Reject;
                            }
                            o += n;
                            done = Some(RFrame::Null);
                        }
                    }
                } else {
                    match ref_number(b, o) {
                        Num::Incomplete => return RefOut::Incomplete,
                        Num::Reject => return RefOut::Reject,
                        Num::Ok(v, n) => {
                            if v < 0 || v > i64::MAX as i128 {
                                return RefOut::Reject;
                            }
                            o += n;
                            let len = v as u128;
                            if len + 2 > (b.len() - o) as u128 {
                                return RefOut::Incomplete;
                            }
                            let len = len as usize;
                            done = Some(RFrame::Bulk(b[o..o + len].to_vec()));
                            o += len + 2;
                        }
                    }
                }
            }
            b'*' => match ref_number(b, o) {
                Num::Incomplete => return RefOut::Incomplete,
                Num::Reject => return RefOut::Reject,
                Num::Ok(v, n) => {
                    if v < 0 || v > i64::MAX as i128 {
                        return RefOut::Reject;
                    }
                    o += n;
                    if v == 0 {
                        done = Some(RFrame::Array(vec![]));
                    } else {
                        // every element needs at least 3 bytes, so a count beyond the buffer is incomplete
                        if v as u128 > (b.len() as u128) {
                            return RefOut::Incomplete;
                        }
                        stack.push((v as u64, Vec::new()));
                    }
                }
            },
            _ => return RefOut::Reject,
        }
        // fold completed frames into their parents
        let mut cur = done;
        while let Some(f) = cur.take() {
            match stack.last_mut() {
                None => return RefOut::Frame(f, o),
                Some((rem, items)) => {
                    items.push(f);
                    *rem -= 1;
                    if *rem == 0 {
                        let (_, items) = stack.pop().unwrap();
                        cur = Some(RFrame::Array(items));
                    }
                }
            }
        }
    }
}

pub fn encode_into(f: &RFrame, out: &mut Vec<u8>) {
    match f {
        RFrame::Simple(s) => {
            out.push(b'+');
            out.extend_from_slice(s);
            out.extend_from_slice(b"\r\n");
        }
        RFrame::Error(s) => {
            out.push(b'-');
            out.extend_from_slice(s);
            out.extend_from_slice(b"\r\n");
        }
        RFrame::Int(i) => {
            out.push(b':');
            out.extend_from_slice(i.to_string().as_bytes());
            out.extend_from_slice(b"\r\n");
        }
        RFrame::Bulk(b) => {
            out.push(b'$');
            out.extend_from_slice(b.len().to_string().as_bytes());
            out.extend_from_slice(b"\r\n");
            out.extend_from_slice(b);
            out.extend_from_slice(b"\r\n");
        }
        RFrame::Null => out.extend_from_slice(b"$-1\r\n"),
        RFrame::Array(items) => {
            out.push(b'*');
            out.extend_from_slice(items.len().to_string().as_bytes());
            out.extend_from_slice(b"\r\n");
            for i in items {
                encode_into(i, out);
            }
        }
    }
}

pub fn encode(f: &RFrame) -> Vec<u8> {
    let mut v = Vec::new();
    encode_into(f, &mut v);
    v
}

/// The implementation's frame in the reference's terms (iterative for the top levels is not needed:
/// frames that come out of the implementation are at most as deep as it managed to parse).
pub fn from_impl(f: &Frame) -> RFrame {
    match f {
        Frame::SimpleString(s) => RFrame::Simple(s.as_bytes().to_vec()),
        Frame::Error(s) => RFrame::Error(s.as_bytes().to_vec()),
        Frame::Integer(i) => RFrame::Int(*i),
        Frame::BulkString(b) => RFrame::Bulk(b.to_vec()),
        Frame::Null => RFrame::Null,
        Frame::Array(items) => RFrame::Array(items.iter().map(from_impl).collect()),
    }
}

pub fn to_impl(f: &RFrame) -> Option<Frame> {
    Some(match f {
        RFrame::Simple(s) => Frame::SimpleString(String::from_utf8(s.clone()).ok()?),
        RFrame::Error(s) => Frame::Error(String::from_utf8(s.clone()).ok()?),
        RFrame::Int(i) => Frame::Integer(*i),
        RFrame::Bulk(b) => Frame::BulkString(bytes::Bytes::from(b.clone())),
        RFrame::Null => Frame::Null,
        RFrame::Array(items) => Frame::Array(items.iter().map(to_impl).collect::<Option<Vec<_>>>()?),
    })
}

pub fn brief(f: &RFrame) -> String {
    match f {
        RFrame::Simple(s) => format!("+{}", crate::orch::show(s)),
        RFrame::Error(s) => format!("-{}", crate::orch::show(s)),
        RFrame::Int(i) => format!(":{}", i),
        RFrame::Bulk(b) => format!("${}:{}", b.len(), crate::orch::show(b)),
        RFrame::Null => "null".into(),
        RFrame::Array(a) => format!("*{}[{}]", a.len(), a.iter().take(4).map(brief).collect::<Vec<_>>().join(",")),
    }
}

/// Build a command frame the way a client would.
pub fn command(parts: &[&[u8]]) -> Vec<u8> {
    encode(&RFrame::Array(parts.iter().map(|p| RFrame::Bulk(p.to_vec())).collect()))
}

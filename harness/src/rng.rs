//! Small deterministic PRNG (xoshiro256**, seeded through splitmix64). Every random choice in the
//! harness comes from here, so that (VERIF_SEED, shard, case index) names a case exactly.

#[derive(Clone, Debug)]
pub struct Rng {
    s: [u64; 4],
}

fn splitmix(x: &mut u64) -> u64 {
    *x = x.wrapping_add(0x9E3779B97F4A7C15);
    let mut z = *x;
    z = (z ^ (z >> 30)).wrapping_mul(0xBF58476D1CE4E5B9);
    z = (z ^ (z >> 27)).wrapping_mul(0x94D049BB133111EB);
    z ^ (z >> 31)
}

impl Rng {
    pub fn new(seed: u64) -> Self {
        let mut x = seed;
        let s = [splitmix(&mut x), splitmix(&mut x), splitmix(&mut x), splitmix(&mut x)];
        Rng { s }
    }

    /// Independent stream derived from this seed and a tag.
    pub fn derive(seed: u64, tag: u64) -> Self {
        let mut x = seed ^ tag.wrapping_mul(0xD6E8FEB86659FD93);
        let a = splitmix(&mut x);
        Rng::new(a ^ tag.rotate_left(17))
    }

    pub fn next_u64(&mut self) -> u64 {
        let r = self.s[1].wrapping_mul(5).rotate_left(7).wrapping_mul(9);
        let t = self.s[1] << 17;
        self.s[2] ^= self.s[0];
        self.s[3] ^= self.s[1];
        self.s[1] ^= self.s[2];
        self.s[0] ^= self.s[3];
        self.s[2] ^= t;
        self.s[3] = self.s[3].rotate_left(45);
        r
    }

    /// Uniform in 0..n (n > 0).
    pub fn below(&mut self, n: u64) -> u64 {
        debug_assert!(n > 0);
        self.next_u64() % n
    }

    pub fn usize_below(&mut self, n: usize) -> usize {
        self.below(n as u64) as usize
    }

    /// Uniform in lo..=hi.
    pub fn range(&mut self, lo: u64, hi: u64) -> u64 {
        lo + self.below(hi - lo + 1)
    }

    pub fn chance(&mut self, num: u64, den: u64) -> bool {
        self.below(den) < num
    }

    pub fn pick<'a, T>(&mut self, xs: &'a [T]) -> &'a T {
        &xs[self.usize_below(xs.len())]
    }

    pub fn bytes(&mut self, n: usize) -> Vec<u8> {
        let mut v = Vec::with_capacity(n);
        while v.len() < n {
            let x = self.next_u64().to_le_bytes();
            let take = (n - v.len()).min(8);
            v.extend_from_slice(&x[..take]);
        }
        v
    }

    /// Pick an index according to integer weights.
    pub fn weighted(&mut self, w: &[u32]) -> usize {
        let tot: u64 = w.iter().map(|x| *x as u64).sum();
        let mut r = self.below(tot.max(1));
        for (i, x) in w.iter().enumerate() {
            if r < *x as u64 {
                return i;
            }
            r -= *x as u64;
        }
        w.len() - 1
    }

    pub fn shuffle<T>(&mut self, xs: &mut [T]) {
        for i in (1..xs.len()).rev() {
            let j = self.usize_below(i + 1);
            xs.swap(i, j);
        }
    }
}

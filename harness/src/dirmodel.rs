//! A model of the store directory driven by the shim's call log. Applying a prefix of the log gives
//! exactly what a process killed at that point leaves behind; keeping, per file, the length at its
//! last completed fsync gives what a power failure may leave behind.

#![allow(dead_code)]

use std::collections::{BTreeMap, HashMap};
use std::path::Path;

use crate::shim::*;

#[derive(Clone, Debug, Default)]
pub struct FileObj {
    pub bytes: Vec<u8>,
    /// length at the last completed fsync/fdatasync of this file
    pub synced: usize,
    /// file length after each write call (cut points at write boundaries)
    pub write_ends: Vec<usize>,
    pub linked: bool,
}

#[derive(Clone, Debug)]
struct FdInfo {
    file: usize,
    flags: u64,
    off: u64,
}

#[derive(Clone, Debug, Default)]
pub struct DirModel {
    pub files: Vec<FileObj>,
    pub names: BTreeMap<String, usize>,
    fds: HashMap<i32, FdInfo>,
    /// things the model cannot represent; a non-empty list makes the run inconclusive
    pub problems: Vec<String>,
}

const O_ACCMODE: u64 = 3;

impl DirModel {
    pub fn new() -> Self {
        Self::default()
    }

    /// Start from what is on disk (for logs recorded against a pre-existing directory).
    pub fn from_dir(dir: &Path) -> Self {
        let mut m = Self::default();
        for (name, _) in crate::store::list_dir(dir) {
            let bytes = std::fs::read(dir.join(&name)).unwrap_or_default();
            let n = bytes.len();
            m.files.push(FileObj { bytes, synced: n, write_ends: vec![], linked: true });
            m.names.insert(name, m.files.len() - 1);
        }
        m
    }

    /// Apply one record. Returns true if the directory contents (names or bytes) changed.
    pub fn apply(&mut self, ev: &Ev) -> bool {
        if ev.injected() {
            return false;
        }
        match ev.kind {
            K_OPEN => {
                if ev.result < 0 {
                    return false;
                }
                let flags = ev.a;
                let mut changed = false;
                let idx = match self.names.get(&ev.name) {
                    Some(i) => {
                        if flags & libc::O_TRUNC as u64 != 0 && flags & O_ACCMODE != 0 {
                            let f = &mut self.files[*i];
                            if !f.bytes.is_empty() {
                                changed = true;
                            }
                            f.bytes.clear();
                        }
                        *i
                    }
                    None => {
                        if flags & libc::O_CREAT as u64 == 0 {
                            self.problems.push(format!("open of unknown file {} without O_CREAT succeeded", ev.name));
                        }
                        self.files.push(FileObj { linked: true, ..Default::default() });
                        self.names.insert(ev.name.clone(), self.files.len() - 1);
                        changed = true;
                        self.files.len() - 1
                    }
                };
                self.fds.insert(ev.fd, FdInfo { file: idx, flags, off: 0 });
                changed
            }
            K_WRITE | K_PWRITE => {
                if ev.result <= 0 {
                    return false;
                }
                let n = ev.result as usize;
                if ev.data.len() != n {
                    self.problems.push(format!("write to {} recorded without its bytes", ev.name));
                    return false;
                }
                let info = match self.fds.get_mut(&ev.fd) {
                    Some(i) => i,
                    None => {
                        self.problems.push(format!("write on unknown fd {} ({})", ev.fd, ev.name));
                        return false;
                    }
                };
                let f = &mut self.files[info.file];
                let at = if ev.kind == K_PWRITE {
                    ev.a as usize
                } else if info.flags & libc::O_APPEND as u64 != 0 {
                    f.bytes.len()
                } else {
                    info.off as usize
                };
                if at > f.bytes.len() {
                    f.bytes.resize(at, 0);
                }
                let end = at + n;
                if end > f.bytes.len() {
                    f.bytes.resize(end, 0);
                }
                f.bytes[at..end].copy_from_slice(&ev.data);
                if ev.kind == K_WRITE {
                    info.off = end as u64;
                }
                f.write_ends.push(f.bytes.len());
                true
            }
            K_FSYNC | K_FDATASYNC => {
                if ev.result == 0 {
                    if let Some(info) = self.fds.get(&ev.fd) {
                        let f = &mut self.files[info.file];
                        f.synced = f.bytes.len();
                    }
                }
                false
            }
            K_FTRUNCATE => {
                if ev.result == 0 {
                    if let Some(info) = self.fds.get(&ev.fd) {
                        let f = &mut self.files[info.file];
                        f.bytes.resize(ev.a as usize, 0);
                        f.synced = f.synced.min(f.bytes.len());
                        return true;
                    }
                }
                false
            }
            K_TRUNCATE => {
                if ev.result == 0 {
                    if let Some(i) = self.names.get(&ev.name) {
                        let f = &mut self.files[*i];
                        f.bytes.resize(ev.a as usize, 0);
                        f.synced = f.synced.min(f.bytes.len());
                        return true;
                    }
                }
                false
            }
            K_RENAME | K_LINK => {
                if ev.result == 0 {
                    let to = String::from_utf8_lossy(&ev.data).to_string();
                    let to = to.rsplit('/').next().unwrap_or(&to).to_string();
                    if let Some(i) = self.names.get(&ev.name).cloned() {
                        if ev.kind == K_RENAME {
                            self.names.remove(&ev.name);
                        }
                        self.names.insert(to, i);
                        return true;
                    }
                }
                false
            }
            K_UNLINK => {
                if ev.result == 0 {
                    if let Some(i) = self.names.remove(&ev.name) {
                        self.files[i].linked = false;
                        return true;
                    }
                    self.problems.push(format!("unlink of unknown file {} succeeded", ev.name));
                }
                false
            }
            K_CLOSE => {
                self.fds.remove(&ev.fd);
                false
            }
            K_DUP => {
                if let Some(i) = self.fds.get(&(ev.a as i32)).cloned() {
                    self.fds.insert(ev.fd, i);
                }
                false
            }
            K_MMAP => {
                if ev.flags & RF_MUTATING != 0 {
                    self.problems.push(format!("writable shared mapping of {}", ev.name));
                }
                false
            }
            K_FALLOCATE | K_UNSUPPORTED => {
                self.problems.push(format!("{} on {} is not modelled", ev.kind_name(), ev.name));
                false
            }
            _ => false,
        }
    }

    pub fn file(&self, name: &str) -> Option<&FileObj> {
        self.names.get(name).map(|i| &self.files[*i])
    }

    /// Content hash of the directory (names + bytes).
    pub fn hash(&self) -> u64 {
        let mut h: u64 = 0xcbf29ce484222325;
        let mut mix = |b: &[u8]| {
            for x in b {
                h ^= *x as u64;
                h = h.wrapping_mul(0x100000001b3);
            }
            h ^= 0xff;
            h = h.wrapping_mul(0x100000001b3);
        };
        for (n, i) in &self.names {
            mix(n.as_bytes());
            mix(&self.files[*i].bytes);
        }
        h
    }

    /// Write the modelled directory to `dir` (which must be empty). `cut(name, file)` gives the
    /// length each file is written with (for power-loss states); `None` = full length.
    pub fn materialise(&self, dir: &Path, cut: Option<&dyn Fn(&str, &FileObj) -> usize>) {
        for (n, i) in &self.names {
            let f = &self.files[*i];
            let len = match cut {
                Some(c) => c(n, f).min(f.bytes.len()),
                None => f.bytes.len(),
            };
            std::fs::write(dir.join(n), &f.bytes[..len]).expect("materialise file");
        }
    }

    /// Byte-for-byte comparison with a real directory; returns the first difference.
    pub fn diff_with(&self, dir: &Path) -> Option<String> {
        let real = crate::store::list_dir(dir);
        let mut real_names: Vec<&String> = real.iter().map(|x| &x.0).collect();
        real_names.sort();
        let model_names: Vec<&String> = self.names.keys().collect();
        if real_names != model_names {
            return Some(format!("file names differ: real {:?} vs model {:?}", real_names, model_names));
        }
        for (n, i) in &self.names {
            let b = std::fs::read(dir.join(n)).unwrap_or_default();
            if b != self.files[*i].bytes {
                return Some(format!("contents of {} differ: real {} bytes vs model {} bytes", n, b.len(), self.files[*i].bytes.len()));
            }
        }
        None
    }

    pub fn listing(&self) -> Vec<(String, usize, usize)> {
        self.names.iter().map(|(n, i)| (n.clone(), self.files[*i].bytes.len(), self.files[*i].synced)).collect()
    }
}

/// Does this record change names or bytes in the directory (i.e. is the point after it a distinct
/// crash point)?
pub fn is_effect(ev: &Ev) -> bool {
    if ev.injected() || ev.result < 0 {
        return false;
    }
    match ev.kind {
        K_OPEN => ev.a & libc::O_CREAT as u64 != 0 || (ev.a & libc::O_TRUNC as u64 != 0),
        K_WRITE | K_PWRITE => ev.result > 0,
        K_FTRUNCATE | K_TRUNCATE | K_RENAME | K_LINK | K_UNLINK => true,
        _ => false,
    }
}

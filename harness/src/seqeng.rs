//! Single-threaded episode engine: drives the real store with a generated history and compares every
//! result with the map model. Used by C01, C02, C05, C12, C13, C19 (each adds its own oracle).

#![allow(dead_code)]

use std::collections::{BTreeMap, BTreeSet, HashMap};
use std::path::{Path, PathBuf};

use crate::orch::show;
use crate::rng::Rng;
use crate::scan;
use crate::store::{Conf, OpErr, Store};

#[derive(Clone, Debug)]
pub struct Fail {
    pub sig: String,
    pub desc: String,
}

pub fn fail<T>(sig: &str, desc: String) -> Result<T, Fail> {
    Err(Fail { sig: sig.to_string(), desc })
}

/// Keys of an episode: a few of these, always including some awkward ones.
pub fn draw_keys(r: &mut Rng, utf8_only: bool, allow_huge: bool) -> Vec<Vec<u8>> {
    let mut pool: Vec<Vec<u8>> = vec![
        b"".to_vec(),
        b"a".to_vec(),
        b"ab".to_vec(),
        b"abc".to_vec(),
        b"b".to_vec(),
        b"k\r\n".to_vec(),
        b"key:0001".to_vec(),
        b"key:0002".to_vec(),
        "\u{00e9}\u{4e16}".as_bytes().to_vec(),
        vec![b'L'; 300],
    ];
    if !utf8_only {
        pool.push(vec![0u8, 0u8]);
        pool.push(vec![0xff, 0xfe, 0x00, 0x0d, 0x0a]);
    } else {
        pool.push("\0\0".as_bytes().to_vec());
        pool.push("x\ny".as_bytes().to_vec());
    }
    if allow_huge && r.chance(1, 12) {
        // a key larger than the 8 KiB write buffer (a hint entry then takes several writes)
        // ... or than 64 KiB, 1 MiB (sizes at which a per-entry limit of a reader would sit)
        let n = *r.pick(&[9000usize, 9000, 9000, 65_504, 65_536, 70_000, 300_000, 1 << 20]);
        pool.push(vec![b'H'; n]);
    }
    r.shuffle(&mut pool);
    let n = r.range(2, 9.min(pool.len() as u64)) as usize;
    pool.truncate(n);
    pool
}

/// A value that no other write of this episode produces (for lengths >= 8), with all byte values
/// occurring, CR/LF/NUL included.
pub fn make_value(r: &mut Rng, counter: u64, size: usize) -> Vec<u8> {
    let mut v = Vec::with_capacity(size);
    let tag = counter.to_le_bytes();
    let mut x = counter.wrapping_mul(0x9E3779B97F4A7C15) ^ r.next_u64();
    while v.len() < size {
        if v.len() < 8 {
            v.push(tag[v.len()]);
        } else {
            x ^= x << 13;
            x ^= x >> 7;
            x ^= x << 17;
            v.push((x >> 24) as u8);
        }
    }
    v
}

pub fn draw_value_size(r: &mut Rng, big_ok: bool) -> usize {
    match r.weighted(&[5, 48, 22, if big_ok { 14 } else { 0 }, if big_ok { 2 } else { 0 }]) {
        0 => 0,
        1 => r.range(1, 64) as usize,
        2 => r.range(65, 1500) as usize,
        3 => r.range(8100, 20_000) as usize, // straddles the 8 KiB write buffer
        _ => r.range(65_536, 200_000) as usize,
    }
}

/// Values in the megabytes (above any plausible internal limit); drawn in one episode out of eight.
pub fn draw_huge_size(r: &mut Rng) -> usize {
    *r.pick(&[1_048_576usize - 40, 1_048_577, 1_300_000, 2_500_000, 4_200_000])
}

pub fn draw_conf(r: &mut Rng) -> Conf {
    let mut c = Conf::default();
    c.max_file_size = *r.pick(&[0u64, 1, 64, 64, 300, 300, 1000, 4096, 4096, 65_536, 2 * 1024 * 1024 * 1024]);
    c.cache = *r.pick(&[0usize, 1, 2, 256]);
    c.conc = *r.pick(&[0usize, 1, 4]);
    c
}

#[derive(Clone, Debug, Default)]
pub struct Feats {
    pub sets: u64,
    pub gets: u64,
    pub dels: u64,
    pub overwrites: u64,
    pub del_present: u64,
    pub del_absent: u64,
    pub reset_after_del: u64,
    pub get_absent: u64,
    pub merges: u64,
    pub merges_nonempty: u64,
    pub merges_partial: u64,
    pub merges_kept_older: u64,
    pub merge_outputs_multi: u64,
    pub reopens: u64,
    pub reopens_with_hint: u64,
    pub max_files: u64,
    pub max_id: u64,
    pub max_value: u64,
    pub big_entries: u64,
    pub tombstones_at_reopen: u64,
    pub reads_from_merge_output: u64,
}

#[derive(Clone, Debug, Default)]
pub struct MergeInfo {
    pub before: Vec<(u64, u64)>,
    pub after: Vec<(u64, u64)>,
    pub removed: Vec<u64>,
    pub created: Vec<u64>,
    /// over the id-ordered non-empty data files before the merge: 'S' selected (removed), 'K' kept
    pub pattern: String,
    pub size_before: u64,
    pub size_after: u64,
}

pub struct Eng {
    pub r: Rng,
    pub dir: PathBuf,
    pub conf: Conf,
    pub thr_name: &'static str,
    pub st: Option<Store>,
    pub keys: Vec<Vec<u8>>,
    pub model: HashMap<Vec<u8>, Vec<u8>>,
    pub deleted_once: BTreeSet<Vec<u8>>,
    pub trace: Vec<String>,
    pub vcount: u64,
    pub f: Feats,
    pub big_ok: bool,
    /// this episode also writes a few values of 1-4 MB
    pub huge_ok: bool,
    pub merge_outputs: BTreeSet<u64>,
    pub last_merge: Option<MergeInfo>,
    /// keys whose last write failed: the other state the key may turn out to be in (a failed
    /// operation may or may not have taken effect, and which of the two can change at a restart)
    pub alt: HashMap<Vec<u8>, Vec<Option<Vec<u8>>>>,
    /// the process's local time zone changes at every reopen (while the store is closed, so that no
    /// thread of the store is alive when the environment is touched)
    pub tz_walk: bool,
}

fn operr(e: &OpErr) -> String {
    format!("{:?}", e)
}

impl Eng {
    pub fn new(r: Rng, dir: &Path, conf: Conf, thr_name: &'static str, keys: Vec<Vec<u8>>, big_ok: bool) -> Eng {
        Eng {
            r,
            dir: dir.to_path_buf(),
            conf,
            thr_name,
            st: None,
            keys,
            model: HashMap::new(),
            deleted_once: BTreeSet::new(),
            trace: Vec::new(),
            vcount: 0,
            f: Feats::default(),
            big_ok,
            huge_ok: false,
            merge_outputs: BTreeSet::new(),
            last_merge: None,
            alt: HashMap::new(),
            tz_walk: false,
        }
    }

    pub fn open(&mut self) -> Result<(), Fail> {
        match Store::open(&self.dir, &self.conf) {
            Ok(s) => {
                self.st = Some(s);
                Ok(())
            }
            Err(e) => fail("open-failed", format!("open of {} failed: {}", self.dir.display(), e)),
        }
    }

    pub fn st(&self) -> &Store {
        self.st.as_ref().expect("store open")
    }

    fn note_files(&mut self) {
        let ids = scan::data_ids(&self.dir);
        self.f.max_files = self.f.max_files.max(ids.len() as u64);
        if let Some(m) = ids.last() {
            self.f.max_id = self.f.max_id.max(*m);
        }
    }

    pub fn do_set(&mut self, ki: usize, size: usize) -> Result<(), Fail> {
        let k = self.keys[ki].clone();
        self.vcount += 1;
        let v = make_value(&mut self.r, self.vcount, size);
        self.trace.push(format!("set k{} {}B", ki, v.len()));
        let res = self.st().set(&k, &v);
        if let Err(e) = res {
            return fail("set-error", format!("set({}, {}B) returned {}", show(&k), v.len(), operr(&e)));
        }
        self.f.sets += 1;
        if self.model.contains_key(&k) {
            self.f.overwrites += 1;
        } else if self.deleted_once.contains(&k) {
            self.f.reset_after_del += 1;
        }
        self.f.max_value = self.f.max_value.max(v.len() as u64);
        if scan::rec_size(&k, Some(&v)) > 8192 {
            self.f.big_entries += 1;
        }
        self.alt.remove(&k);
        self.model.insert(k, v);
        Ok(())
    }

    /// A set or delete during which one file-system call on a data file fails (create, write or
    /// fsync; ENOSPC or EIO). If the operation reports the failure, the key is read back at once: it
    /// must hold what it held before or what the operation wanted to write; the model adopts what
    /// is read and remembers the other state as a possibility (cleared by the next successful write
    /// of the key). Returns whether the fault fired.
    pub fn do_faulty_op(&mut self) -> Result<bool, Fail> {
        let ki = self.r.usize_below(self.keys.len());
        let k = self.keys[ki].clone();
        let is_set = self.r.chance(7, 10);
        let nth = self.r.below(2) as i64;
        let errno = if self.r.chance(1, 2) { libc::ENOSPC } else { libc::EIO };
        self.vcount += 1;
        let size = draw_value_size(&mut self.r, self.big_ok);
        let v = make_value(&mut self.r, self.vcount, size);
        self.trace.push(format!("{} k{} with one failing call", if is_set { "set" } else { "del" }, ki));
        crate::shim::log_reset();
        crate::shim::record_data(false);
        crate::shim::watch(Some(&self.dir));
        // half of the time the file system also takes the entry in two parts, so that the failing call
        // can be the one that comes back with the rest (a part of the entry is then in the file)
        if self.r.chance(1, 2) {
            crate::shim::short_writes(1_000_000, self.r.next_u64() | 1);
        }
        crate::shim::fail(crate::shim::C_WRITE | crate::shim::C_CREATE | crate::shim::C_FSYNC, crate::shim::F_DATA, nth, errno);
        let res: Result<(), OpErr> = if is_set { self.st().set(&k, &v) } else { self.st().del(&k).map(|_| ()) };
        let hit = crate::shim::fail_hit().is_some();
        crate::shim::fail_off();
        crate::shim::short_writes(0, 0);
        crate::shim::watch(None);
        crate::shim::log_reset();
        let before = self.model.get(&k).cloned();
        let wanted = if is_set { Some(v.clone()) } else { None };
        match res {
            Ok(()) => {
                // not this engine's subject whether a failure may go unreported (that is C20's)
                self.alt.remove(&k);
                match wanted {
                    Some(v) => {
                        self.model.insert(k, v);
                    }
                    None => {
                        if before.is_some() {
                            self.deleted_once.insert(k.clone());
                        }
                        self.model.remove(&k);
                    }
                }
            }
            Err(_) => {
                let now = match self.st().get(&k) {
                    Ok(g) => g,
                    Err(e) => return fail("get-error", format!("get({}) right after a failed {} returned {}", show(&k), if is_set { "set" } else { "del" }, operr(&e))),
                };
                let other = if now == before {
                    wanted
                } else if now == wanted {
                    before.clone()
                } else {
                    return fail("get-wrong-value", format!("after a failed {} key {} reads neither what it held before nor what the operation wanted to write", if is_set { "set" } else { "del" }, show(&k)));
                };
                match now {
                    Some(v) => {
                        self.model.insert(k.clone(), v);
                    }
                    None => {
                        self.model.remove(&k);
                    }
                }
                // earlier failed writes of the same key stay possible: each may have left a record
                // that a restart will find, and which of them comes last is not known here
                let a = self.alt.entry(k).or_default();
                if !a.contains(&other) {
                    a.push(other);
                }
                if !a.contains(&before) {
                    a.push(before);
                }
            }
        }
        Ok(hit)
    }

    pub fn check_get(&mut self, k: &[u8], when: &str) -> Result<(), Fail> {
        let got = self.st().get(k);
        let exp = self.model.get(k).cloned();
        match got {
            Err(e) => fail("get-error", format!("{}: get({}) returned {}", when, show(k), operr(&e))),
            Ok(g) if g == exp => Ok(()),
            Ok(g) if self.alt.get(k).map(|a| a.contains(&g)).unwrap_or(false) => {
                // a failed write of this key has taken effect after all (or no longer has)
                let a = self.alt.entry(k.to_vec()).or_default();
                if !a.contains(&exp) {
                    a.push(exp);
                }
                match g {
                    Some(v) => {
                        self.model.insert(k.to_vec(), v);
                    }
                    None => {
                        self.model.remove(k);
                    }
                }
                Ok(())
            }
            Ok(g) => {
                let sig = match (&exp, &g) {
                    (None, Some(_)) => "get-resurrected",
                    (Some(_), None) => "get-lost",
                    _ => "get-wrong-value",
                };
                fail(
                    sig,
                    format!(
                        "{}: get({}) returned {} but the model says {}",
                        when,
                        show(k),
                        g.as_ref().map(|v| format!("{}B:{}", v.len(), show(v))).unwrap_or("nothing".into()),
                        exp.as_ref().map(|v| format!("{}B:{}", v.len(), show(v))).unwrap_or("nothing".into())
                    ),
                )
            }
        }
    }

    pub fn do_get(&mut self, ki: usize) -> Result<(), Fail> {
        let k = self.keys[ki].clone();
        self.trace.push(format!("get k{}", ki));
        self.f.gets += 1;
        if !self.model.contains_key(&k) {
            self.f.get_absent += 1;
        }
        self.check_get(&k, "get")
    }

    pub fn do_get_never_written(&mut self) -> Result<(), Fail> {
        self.trace.push("get <never-written>".into());
        self.f.gets += 1;
        self.f.get_absent += 1;
        self.check_get(b"\x01never-written\x02", "get")
    }

    pub fn do_del(&mut self, ki: usize) -> Result<(), Fail> {
        let k = self.keys[ki].clone();
        self.trace.push(format!("del k{}", ki));
        let exp = self.model.contains_key(&k);
        let got = self.st().del(&k);
        self.f.dels += 1;
        self.alt.remove(&k);
        match got {
            Err(e) => fail("del-error", format!("del({}) returned {}", show(&k), operr(&e))),
            Ok(b) if b == exp => {
                if exp {
                    self.f.del_present += 1;
                    self.deleted_once.insert(k.clone());
                } else {
                    self.f.del_absent += 1;
                }
                self.model.remove(&k);
                Ok(())
            }
            Ok(b) => fail("del-wrong-result", format!("del({}) returned {} but the key was {}", show(&k), b, if exp { "present" } else { "absent" })),
        }
    }

    /// Read back every key of the universe and one key that was never written.
    pub fn check_all(&mut self, when: &str) -> Result<(), Fail> {
        for k in self.keys.clone() {
            self.check_get(&k, when)?;
        }
        self.check_get(b"\x01never-written\x02", when)
    }

    pub fn do_merge(&mut self) -> Result<MergeInfo, Fail> {
        self.trace.push("merge".into());
        let before_scan = scan::scan_dir(&self.dir);
        let before: Vec<(u64, u64)> = before_scan.iter().map(|(id, f)| (*id, f.size)).collect();
        let res = self.st().merge();
        if let Err(e) = res {
            return fail("merge-error", format!("merge returned {}", operr(&e)));
        }
        let after_list = crate::store::list_dir(&self.dir);
        let after: Vec<(u64, u64)> = after_list.iter().filter_map(|(n, s)| match crate::store::parse_name(n) { Some((id, true)) => Some((id, *s)), _ => None }).collect();
        let mut after = after;
        after.sort();
        let bset: BTreeSet<u64> = before.iter().map(|x| x.0).collect();
        let aset: BTreeSet<u64> = after.iter().map(|x| x.0).collect();
        let removed: Vec<u64> = bset.difference(&aset).cloned().collect();
        let created: Vec<u64> = aset.difference(&bset).cloned().collect();
        let mut pattern = String::new();
        let mut seen_kept_nonempty = false;
        let mut kept_older = false;
        for (id, f) in &before_scan {
            if f.recs.is_empty() {
                continue;
            }
            if removed.contains(id) {
                pattern.push('S');
                if seen_kept_nonempty {
                    kept_older = true;
                }
            } else {
                pattern.push('K');
                seen_kept_nonempty = true;
            }
        }
        self.f.merges += 1;
        if !removed.is_empty() {
            self.f.merges_nonempty += 1;
            if pattern.contains('K') {
                self.f.merges_partial += 1;
            }
            if kept_older {
                self.f.merges_kept_older += 1;
            }
        }
        let outputs: Vec<u64> = created.iter().cloned().filter(|id| after.iter().any(|(i, s)| i == id && *s > 0)).collect();
        if outputs.len() > 1 {
            self.f.merge_outputs_multi += 1;
        }
        for o in &outputs {
            self.merge_outputs.insert(*o);
        }
        let info = MergeInfo {
            size_before: before.iter().map(|x| x.1).sum(),
            size_after: after.iter().map(|x| x.1).sum(),
            before,
            after,
            removed,
            created,
            pattern,
        };
        self.note_files();
        self.last_merge = Some(info.clone());
        Ok(info)
    }

    pub fn close(&mut self) {
        if let Some(mut s) = self.st.take() {
            s.close();
            drop(s);
        }
    }

    pub fn do_reopen(&mut self, new_conf: Option<Conf>) -> Result<(), Fail> {
        self.trace.push("reopen".into());
        self.close();
        if let Some(c) = new_conf {
            self.conf = c;
        }
        self.f.reopens += 1;
        if !scan::hint_ids(&self.dir).is_empty() {
            self.f.reopens_with_hint += 1;
        }
        self.f.tombstones_at_reopen += self.deleted_once.iter().filter(|k| !self.model.contains_key(*k)).count() as u64;
        if self.tz_walk {
            crate::store::wait_background_threads(0, 5000);
            let tz = *self.r.pick(&["UTC0", "EST5", "PST8", "VRF-12", "VRF+11", "VRF-5:30", "VRF-1"]);
            std::env::set_var("TZ", tz);
            extern "C" {
                fn tzset();
            }
            unsafe { tzset() };
            self.trace.push(format!("TZ={}", tz));
        }
        self.open()
    }

    /// One random data operation, weighted towards overwrites and deletes of present keys.
    pub fn random_op(&mut self) -> Result<(), Fail> {
        let nk = self.keys.len();
        let w = self.r.weighted(&[46, 30, 18, 3, 3]);
        let res = match w {
            0 => {
                let ki = self.r.usize_below(nk);
                let sz = if self.huge_ok && self.r.chance(1, 25) { draw_huge_size(&mut self.r) } else { draw_value_size(&mut self.r, self.big_ok) };
                self.do_set(ki, sz)
            }
            1 => {
                let ki = self.r.usize_below(nk);
                self.do_get(ki)
            }
            2 => {
                let ki = self.r.usize_below(nk);
                self.do_del(ki)
            }
            3 => self.do_get_never_written(),
            _ => {
                // delete then immediately re-set the same key
                let ki = self.r.usize_below(nk);
                self.do_del(ki)?;
                let sz = draw_value_size(&mut self.r, false);
                self.do_set(ki, sz)
            }
        };
        self.note_files();
        res
    }

    pub fn nontrivial_basic(&self) -> bool {
        self.f.max_files > 1 && self.f.overwrites > 0 && self.f.del_present > 0
    }

    pub fn trace_hash(&self) -> u64 {
        let mut s = String::new();
        s.push_str(&self.conf.brief());
        for k in &self.keys {
            s.push_str(&format!("|{}", crate::orch::hex(k)));
        }
        for t in &self.trace {
            s.push(';');
            s.push_str(t);
        }
        crate::orch::fnv(s.as_bytes())
    }

    pub fn sample(&self, case: u64) -> serde_json::Value {
        let n = self.trace.len();
        let head: Vec<&String> = self.trace.iter().take(40).collect();
        serde_json::json!({
            "case": case,
            "config": self.conf.brief(),
            "thresholds": self.thr_name,
            "keys": self.keys.iter().map(|k| show(k)).collect::<Vec<_>>(),
            "ops_total": n,
            "ops_head": head,
            "files_max": self.f.max_files,
            "merges_nonempty": self.f.merges_nonempty,
        })
    }

    pub fn tail_trace(&self, n: usize) -> String {
        let s = self.trace.len().saturating_sub(n);
        self.trace[s..].join("; ")
    }
}

// ------------------------------------------------------------------------------------------------
// C19: the dump against an independent scan

pub fn check_accounting(e: &Eng, when: &str) -> Result<(u64, u64), Fail> {
    let dump = e.st().dump();
    let files = scan::scan_dir(&e.dir);
    // 1. the index must be truthful
    let mut by_key: HashMap<&[u8], Vec<&bitcask::storage::bitcask::VerifKeyDirEntry>> = HashMap::new();
    for ent in &dump.keydir {
        by_key.entry(ent.key.as_slice()).or_default().push(ent);
    }
    for (k, v) in &e.model {
        let ents = match by_key.get(k.as_slice()) {
            Some(x) => x,
            None => return fail("index-missing-key", format!("{}: key {} is in the model but has no index entry", when, show(k))),
        };
        if ents.len() != 1 {
            return fail("index-duplicate-key", format!("{}: key {} has {} index entries", when, show(k), ents.len()));
        }
        let ent = ents[0];
        let rec = files.get(&ent.fileid).and_then(|f| f.recs.iter().find(|r| r.pos == ent.pos));
        match rec {
            Some(r) if r.len == ent.len && r.key == *k && r.value.as_deref() == Some(v.as_slice()) => {}
            Some(r) => {
                return fail(
                    "index-points-at-wrong-record",
                    format!("{}: index entry of {} -> file {} pos {} len {}, but the record there is key {} len {} value {:?}", when, show(k), ent.fileid, ent.pos, ent.len, show(&r.key), r.len, r.value.as_ref().map(|v| v.len())),
                )
            }
            None => return fail("index-points-at-no-record", format!("{}: index entry of {} -> file {} pos {} len {}: no record starts there", when, show(k), ent.fileid, ent.pos, ent.len)),
        }
    }
    for ent in &dump.keydir {
        if !e.model.contains_key(&ent.key) {
            return fail("index-has-deleted-key", format!("{}: index holds key {} (file {} pos {}), which the model says is absent", when, show(&ent.key), ent.fileid, ent.pos));
        }
    }
    // 2. per-file counters against ground truth
    let mut live: BTreeMap<u64, BTreeSet<u64>> = BTreeMap::new();
    for ent in &dump.keydir {
        live.entry(ent.fileid).or_default().insert(ent.pos);
    }
    let mut stats: BTreeMap<u64, (u64, u64, u64)> = BTreeMap::new();
    for s in &dump.stats {
        stats.insert(s.fileid, (s.live_keys, s.dead_keys, s.dead_bytes));
    }
    let mut ids: BTreeSet<u64> = files.keys().cloned().collect();
    ids.extend(stats.keys().cloned());
    let mut compared = 0;
    for id in ids {
        let empty = BTreeSet::new();
        let l = live.get(&id).unwrap_or(&empty);
        let (mut tl, mut td, mut tb) = (0u64, 0u64, 0u64);
        if let Some(f) = files.get(&id) {
            for r in &f.recs {
                if l.contains(&r.pos) {
                    tl += 1;
                } else {
                    td += 1;
                    tb += r.len;
                }
            }
        }
        let got = stats.get(&id).cloned().unwrap_or((0, 0, 0));
        if got != (tl, td, tb) {
            let nrec = files.get(&id).map(|f| f.recs.len()).unwrap_or(0);
            let sig = if got.0 > nrec as u64 + 1_000_000 || got.1 > nrec as u64 + 1_000_000 { "accounting-underflow" } else { "accounting-mismatch" };
            return fail(
                sig,
                format!("{}: file {}: store says live={} dead={} dead_bytes={}, the file really holds live={} dead={} dead_bytes={} ({} records)", when, id, got.0, got.1, got.2, tl, td, tb, nrec),
            );
        }
        compared += 1;
    }
    Ok((compared, dump.keydir.len() as u64))
}

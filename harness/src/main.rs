//! bcverif - runtime monitors for the letung3105/bitcask properties C01..C20.
//!
//!   bcverif check <ID> [--tier quick|thorough]      orchestrator: exit 0 held / 1 violation / 2 inconclusive
//!   bcverif worker <ID> <tier> <seed> <shard> <nshards> <out.json> <mode>
//!   bcverif replay <file>                           run the case named in a replay file again
//!   bcverif serve ...                               the real server over a real store (child process role)

mod checks;
mod dirmodel;
mod linz;
mod netcli;
mod orch;
mod plan;
mod resp;
mod rng;
mod scan;
mod seqeng;
mod serve;
mod shim;
mod store;

use std::path::PathBuf;
use std::sync::Mutex;
use std::time::Instant;

use orch::{Ctx, Out, Tier};

pub static LAST_PANIC: Mutex<String> = Mutex::new(String::new());

pub fn install_quiet_panic_hook() {
    std::panic::set_hook(Box::new(|info| {
        let loc = info.location().map(|l| format!("{}:{}", l.file(), l.line())).unwrap_or_default();
        let msg = if let Some(s) = info.payload().downcast_ref::<&str>() {
            s.to_string()
        } else if let Some(s) = info.payload().downcast_ref::<String>() {
            s.clone()
        } else {
            "panic".to_string()
        };
        if let Ok(mut g) = LAST_PANIC.lock() {
            *g = format!("{} at {}", msg, loc);
        }
        if std::env::var_os("BCVERIF_VERBOSE").is_some() {
            eprintln!("[panic] {} at {}", msg, loc);
        }
    }));
}

pub fn last_panic() -> String {
    LAST_PANIC.lock().map(|g| g.clone()).unwrap_or_default()
}

/// "src/net/frame.rs:219" out of a recorded panic message: the stable part of a panic signature.
pub fn panic_site(msg: &str) -> String {
    match msg.rfind(" at ") {
        Some(i) => {
            let loc = &msg[i + 4..];
            let loc = loc.rsplit("/repo/").next().unwrap_or(loc);
            loc.to_string()
        }
        None => "unknown".to_string(),
    }
}

fn usage() -> ! {
    eprintln!("usage: bcverif check <ID> [--tier quick|thorough] | worker ... | replay <file> | serve ...");
    std::process::exit(2);
}

fn main() {
    let args: Vec<String> = std::env::args().collect();
    if args.len() < 2 {
        usage();
    }
    match args[1].as_str() {
        "check" => {
            if args.len() < 3 {
                usage();
            }
            let id = args[2].clone();
            let mut tier = std::env::var("VERIF_TIER").map(|s| Tier::parse(&s)).unwrap_or(Tier::Quick);
            let mut i = 3;
            while i < args.len() {
                if args[i] == "--tier" && i + 1 < args.len() {
                    tier = Tier::parse(&args[i + 1]);
                    i += 1;
                }
                i += 1;
            }
            let seed = std::env::var("VERIF_SEED").ok().and_then(|s| s.trim().parse::<i64>().ok()).map(|x| x as u64).unwrap_or(orch::DEFAULT_SEED);
            let check = match checks::get(&id) {
                Some(c) => c,
                None => {
                    eprintln!("unknown property {}", id);
                    std::process::exit(2);
                }
            };
            let t0 = Instant::now();
            let code = (check.run)(&check, tier, seed, t0);
            std::process::exit(code);
        }
        "worker" => {
            if args.len() < 9 {
                usage();
            }
            install_quiet_panic_hook();
            let id = args[2].clone();
            let tier = Tier::parse(&args[3]);
            let seed: u64 = args[4].parse().unwrap();
            let shard: u64 = args[5].parse().unwrap();
            let nshards: u64 = args[6].parse().unwrap();
            let out_path = PathBuf::from(&args[7]);
            let mode = args[8].clone();
            let scratch = orch::shm_base();
            let _ = std::fs::remove_dir_all(&scratch);
            std::fs::create_dir_all(&scratch).expect("scratch dir");
            let ctx = Ctx { id: id.clone(), tier, seed, shard, nshards, out_path: out_path.clone(), scratch: scratch.clone(), only_case: None, mode, detail: serde_json::Value::Null };
            let check = checks::get(&id).expect("known property");
            let mut out = Out::default();
            let res = std::panic::catch_unwind(std::panic::AssertUnwindSafe(|| (check.worker)(&ctx, &mut out)));
            if res.is_err() {
                out.inconclusive.push(format!("harness worker panicked: {}", last_panic()));
            }
            let _ = std::fs::write(&out_path, serde_json::to_vec(&out.to_json()).unwrap());
            let _ = std::fs::remove_dir_all(&scratch);
            std::process::exit(if res.is_err() { 101 } else { 0 });
        }
        "replay" => {
            if args.len() < 3 {
                usage();
            }
            install_quiet_panic_hook();
            std::env::set_var("BCVERIF_VERBOSE", "1");
            let body: serde_json::Value = serde_json::from_slice(&std::fs::read(&args[2]).expect("read replay file")).expect("replay file is JSON");
            let rp = &body["replay"];
            let id = rp["property"].as_str().expect("property").to_string();
            let tier = Tier::parse(rp["tier"].as_str().unwrap_or("quick"));
            let seed = rp["seed"].as_u64().unwrap_or(orch::DEFAULT_SEED);
            let case = rp["case"].as_u64();
            let mode = rp["mode"].as_str().unwrap_or("").to_string();
            let scratch = orch::shm_base();
            std::fs::create_dir_all(&scratch).expect("scratch dir");
            let ctx = Ctx { id: id.clone(), tier, seed, shard: 0, nshards: 1, out_path: scratch.join("replay.json"), scratch: scratch.clone(), only_case: case, mode, detail: rp["detail"].clone() };
            let check = checks::get(&id).expect("known property");
            let mut out = Out::default();
            // merges copy in index order, which differs from process to process: a case with merges may
            // need a few attempts even when no timing is involved
            let attempts = std::env::var("BCVERIF_ATTEMPTS").ok().and_then(|x| x.parse().ok()).unwrap_or(if check.timing_dependent { 20 } else { 5 });
            let mut fired = false;
            for a in 0..attempts {
                out = Out::default();
                (check.worker)(&ctx, &mut out);
                if !out.violations.is_empty() {
                    fired = true;
                    println!("attempt {}: reproduced", a + 1);
                    break;
                }
            }
            let _ = std::fs::remove_dir_all(&scratch);
            for v in &out.violations {
                println!("VIOLATION property={} replay={}", id, args[2]);
                println!("  [{}] {}", v.sig, v.desc);
            }
            if !fired {
                println!("not reproduced in {} attempt(s)", attempts);
            }
            std::process::exit(if fired { 1 } else { 0 });
        }
        "tsan-selftest" => {
            // a deliberate data race: proves that the sanitizer build reports races and that the
            // report parser sees them
            static mut RACY: u64 = 0;
            let ts: Vec<_> = (0..2)
                .map(|_| {
                    std::thread::spawn(|| {
                        for _ in 0..1000 {
                            unsafe {
                                let p = std::ptr::addr_of_mut!(RACY);
                                p.write_volatile(p.read_volatile() + 1);
                            }
                        }
                    })
                })
                .collect();
            for t in ts {
                let _ = t.join();
            }
            println!("selftest done");
            std::process::exit(0);
        }
        "mirirun" => {
            // reduced in-process corpus for `cargo +nightly miri run --no-default-features -- mirirun <ID>`
            install_quiet_panic_hook();
            let id = args.get(2).map(|s| s.as_str()).unwrap_or("C07");
            let seed: u64 = args.get(3).and_then(|s| s.parse().ok()).unwrap_or(orch::DEFAULT_SEED);
            let cases: u64 = args.get(4).and_then(|s| s.parse().ok()).unwrap_or(30);
            let (n, v) = if id == "C08" { checks::c08::miri_run(seed, cases) } else { checks::c07::miri_run(seed, cases) };
            println!("MIRI-SUMMARY property={} inputs_or_runs={} oracle_violations={}", id, n, v.len());
            for x in &v {
                println!("MIRI-ORACLE-VIOLATION {}", x);
            }
            std::process::exit(if v.is_empty() { 0 } else { 1 });
        }
        "serve" => {
            if args.len() < 7 {
                usage();
            }
            let code = serve::main(&args[2..]);
            std::process::exit(code);
        }
        _ => usage(),
    }
}

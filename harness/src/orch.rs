//! Orchestration shared by all checks: worker processes, result merging, verdicts, evidence.

#![allow(dead_code)]

use std::collections::{BTreeMap, BTreeSet};
use std::path::{Path, PathBuf};
use std::process::{Command, Stdio};
use std::time::{Duration, Instant};

use serde_json::{json, Value};

pub const DEFAULT_SEED: u64 = 20260925;

#[derive(Clone, Copy, Debug, PartialEq, Eq)]
pub enum Tier {
    Quick,
    Thorough,
}
impl Tier {
    pub fn name(self) -> &'static str {
        match self {
            Tier::Quick => "quick",
            Tier::Thorough => "thorough",
        }
    }
    pub fn parse(s: &str) -> Tier {
        if s == "thorough" {
            Tier::Thorough
        } else {
            Tier::Quick
        }
    }
    pub fn pick<T>(self, q: T, t: T) -> T {
        match self {
            Tier::Quick => q,
            Tier::Thorough => t,
        }
    }
}

#[derive(Clone, Debug)]
pub struct Violation {
    /// stable signature: what kind of failure this is (matched against known_findings.json)
    pub sig: String,
    pub desc: String,
    /// everything needed to run this case again
    pub replay: Value,
}

/// What one worker (or one check as a whole) accumulates.
#[derive(Clone, Debug, Default)]
pub struct Out {
    pub evaluations: u64,
    /// distinct non-trivial cases (by the check's rule); merged as a set across workers
    pub classes: BTreeSet<String>,
    /// secondary coverage classes (configuration shapes, phases, call kinds ...)
    pub kinds: BTreeSet<String>,
    pub counters: BTreeMap<String, u64>,
    pub maxima: BTreeMap<String, u64>,
    pub samples: Vec<Value>,
    pub violations: Vec<Violation>,
    pub inconclusive: Vec<String>,
}

impl Out {
    pub fn count(&mut self, name: &str, n: u64) {
        *self.counters.entry(name.to_string()).or_insert(0) += n;
    }
    pub fn max(&mut self, name: &str, n: u64) {
        let e = self.maxima.entry(name.to_string()).or_insert(0);
        if n > *e {
            *e = n;
        }
    }
    pub fn class(&mut self, c: String) {
        if self.classes.len() < 200_000 {
            self.classes.insert(c);
        }
    }
    pub fn class_counter(&mut self, c: &str) {
        if self.kinds.len() < 20_000 {
            self.kinds.insert(c.to_string());
        }
    }
    pub fn sample(&mut self, v: Value) {
        if self.samples.len() < 6 {
            self.samples.push(v);
        }
    }
    pub fn violation(&mut self, sig: &str, desc: String, replay: Value) {
        if self.violations.iter().filter(|v| v.sig == sig).count() < 3 && self.violations.len() < 50 {
            self.violations.push(Violation { sig: sig.to_string(), desc, replay });
        }
        self.count("violations_seen", 1);
    }
    pub fn merge(&mut self, o: Out) {
        self.evaluations += o.evaluations;
        self.classes.extend(o.classes);
        self.kinds.extend(o.kinds);
        for (k, v) in o.counters {
            *self.counters.entry(k).or_insert(0) += v;
        }
        for (k, v) in o.maxima {
            let e = self.maxima.entry(k).or_insert(0);
            if v > *e {
                *e = v;
            }
        }
        for s in o.samples {
            if self.samples.len() < 8 {
                self.samples.push(s);
            }
        }
        for v in o.violations {
            if self.violations.iter().filter(|x| x.sig == v.sig).count() < 3 {
                self.violations.push(v);
            }
        }
        self.inconclusive.extend(o.inconclusive);
    }
    pub fn to_json(&self) -> Value {
        json!({
            "evaluations": self.evaluations,
            "classes": self.classes.iter().collect::<Vec<_>>(),
            "kinds": self.kinds.iter().collect::<Vec<_>>(),
            "counters": self.counters,
            "maxima": self.maxima,
            "samples": self.samples,
            "violations": self.violations.iter().map(|v| json!({"sig": v.sig, "desc": v.desc, "replay": v.replay})).collect::<Vec<_>>(),
            "inconclusive": self.inconclusive,
        })
    }
    pub fn from_json(v: &Value) -> Out {
        let mut o = Out::default();
        o.evaluations = v["evaluations"].as_u64().unwrap_or(0);
        if let Some(a) = v["classes"].as_array() {
            for c in a {
                o.classes.insert(c.as_str().unwrap_or("").to_string());
            }
        }
        if let Some(a) = v["kinds"].as_array() {
            for c in a {
                o.kinds.insert(c.as_str().unwrap_or("").to_string());
            }
        }
        if let Some(m) = v["counters"].as_object() {
            for (k, x) in m {
                o.counters.insert(k.clone(), x.as_u64().unwrap_or(0));
            }
        }
        if let Some(m) = v["maxima"].as_object() {
            for (k, x) in m {
                o.maxima.insert(k.clone(), x.as_u64().unwrap_or(0));
            }
        }
        if let Some(a) = v["samples"].as_array() {
            o.samples = a.clone();
        }
        if let Some(a) = v["violations"].as_array() {
            for x in a {
                o.violations.push(Violation {
                    sig: x["sig"].as_str().unwrap_or("").to_string(),
                    desc: x["desc"].as_str().unwrap_or("").to_string(),
                    replay: x["replay"].clone(),
                });
            }
        }
        if let Some(a) = v["inconclusive"].as_array() {
            for x in a {
                o.inconclusive.push(x.as_str().unwrap_or("").to_string());
            }
        }
        o
    }
}

/// What a worker process is told.
#[derive(Clone, Debug)]
pub struct Ctx {
    pub id: String,
    pub tier: Tier,
    pub seed: u64,
    pub shard: u64,
    pub nshards: u64,
    pub out_path: PathBuf,
    /// scratch directory of this worker (under /dev/shm), removed when it ends
    pub scratch: PathBuf,
    /// run exactly this case, verbosely (replay)
    pub only_case: Option<u64>,
    pub mode: String,
    /// the `detail` of a replay file (Null in normal runs)
    pub detail: Value,
}

impl Ctx {
    /// Case numbers this worker is responsible for, out of `total`.
    pub fn cases(&self, total: u64) -> Vec<u64> {
        match self.only_case {
            Some(c) => vec![c],
            None => (0..total).filter(|c| c % self.nshards == self.shard).collect(),
        }
    }
    pub fn replay(&self, case: u64, detail: Value) -> Value {
        json!({"property": self.id, "tier": self.tier.name(), "seed": self.seed, "case": case, "mode": self.mode, "detail": detail})
    }
    /// Leave a note about what is being run, so that a dying worker can be attributed.
    pub fn breadcrumb(&self, case: u64, what: &str) {
        let p = self.out_path.with_extension("cur");
        let _ = std::fs::write(p, format!("{}\n{}\n", case, what));
    }
    /// Save what has been accumulated so far (at most every two seconds), so that the results of a
    /// worker that is later killed by a watchdog are not lost.
    pub fn checkpoint(&self, out: &Out) {
        use std::sync::atomic::{AtomicU64, Ordering};
        static LAST: AtomicU64 = AtomicU64::new(0);
        let now = std::time::SystemTime::now().duration_since(std::time::UNIX_EPOCH).map(|d| d.as_secs()).unwrap_or(0);
        if now >= LAST.load(Ordering::Relaxed) + 2 {
            LAST.store(now, Ordering::Relaxed);
            let tmp = self.out_path.with_extension("tmp");
            if std::fs::write(&tmp, serde_json::to_vec(&out.to_json()).unwrap()).is_ok() {
                let _ = std::fs::rename(&tmp, &self.out_path);
            }
        }
    }
}

pub fn verif_root() -> PathBuf {
    if let Ok(p) = std::env::var("VERIF_ROOT") {
        return PathBuf::from(p);
    }
    // the binary lives in <root>/target/<profile>/bcverif
    let exe = std::env::current_exe().unwrap();
    let mut p = exe.as_path();
    for _ in 0..3 {
        p = p.parent().unwrap_or(Path::new("/verif"));
    }
    p.to_path_buf()
}

pub fn shm_base() -> PathBuf {
    let base = if Path::new("/dev/shm").is_dir() { PathBuf::from("/dev/shm") } else { std::env::temp_dir() };
    base.join(format!("bcverif-{}", std::process::id()))
}

pub struct WorkerPlan {
    pub mode: String,
    pub shard: u64,
    pub nshards: u64,
    pub timeout: Duration,
}

/// A worker whose breadcrumb has not moved for this long is stuck (cases take milliseconds to seconds).
pub const STALL_LIMIT: Duration = Duration::from_secs(180);

pub struct CheckSpec {
    pub id: &'static str,
    pub level: &'static str,
    pub rule: &'static str,
    pub assumptions: Vec<&'static str>,
    /// how child death by a signal is treated: true = violation of this property
    pub death_is_violation: bool,
}

fn signal_name(s: i32) -> &'static str {
    match s {
        libc::SIGSEGV => "SIGSEGV",
        libc::SIGBUS => "SIGBUS",
        libc::SIGABRT => "SIGABRT",
        libc::SIGILL => "SIGILL",
        libc::SIGFPE => "SIGFPE",
        libc::SIGKILL => "SIGKILL",
        _ => "signal",
    }
}

/// Run the planned workers, at most `par` at a time, and merge what they report.
pub fn run_workers(spec: &CheckSpec, tier: Tier, seed: u64, plans: Vec<WorkerPlan>, par: usize) -> Out {
    run_workers_with(spec, tier, seed, plans, par, None)
}

/// As `run_workers`, optionally with another build of this binary (release profile, sanitizer build).
pub fn run_workers_with(spec: &CheckSpec, tier: Tier, seed: u64, plans: Vec<WorkerPlan>, par: usize, bin: Option<PathBuf>) -> Out {
    use std::os::unix::process::ExitStatusExt;
    let exe = bin.unwrap_or_else(|| std::env::current_exe().expect("current_exe"));
    let base = shm_base().join(format!("orch-{}", std::time::SystemTime::now().duration_since(std::time::UNIX_EPOCH).map(|d| d.as_nanos()).unwrap_or(0)));
    let _ = std::fs::create_dir_all(&base);
    let mut total = Out::default();
    let mut pending: Vec<(usize, WorkerPlan)> = plans.into_iter().enumerate().collect();
    pending.reverse();
    struct Running {
        idx: usize,
        plan: WorkerPlan,
        child: std::process::Child,
        out: PathBuf,
        started: Instant,
    }
    let mut running: Vec<Running> = Vec::new();
    loop {
        while running.len() < par {
            match pending.pop() {
                Some((idx, plan)) => {
                    let out = base.join(format!("w{}.json", idx));
                    let child = Command::new(&exe)
                        .arg("worker")
                        .arg(spec.id)
                        .arg(tier.name())
                        .arg(seed.to_string())
                        .arg(plan.shard.to_string())
                        .arg(plan.nshards.to_string())
                        .arg(&out)
                        .arg(&plan.mode)
                        .stdin(Stdio::null())
                        .stdout(Stdio::null())
                        .stderr(Stdio::inherit())
                        .env("RUST_BACKTRACE", "0")
                        .spawn()
                        .expect("spawn worker");
                    running.push(Running { idx, plan, child, out, started: Instant::now() });
                }
                None => break,
            }
        }
        if running.is_empty() {
            break;
        }
        let mut i = 0;
        let mut progressed = false;
        while i < running.len() {
            let done = match running[i].child.try_wait() {
                Ok(Some(st)) => Some(Ok(st)),
                Ok(None) => {
                    let crumb_age = std::fs::metadata(running[i].out.with_extension("cur")).and_then(|m| m.modified()).ok().and_then(|t| t.elapsed().ok());
                    let stalled = match crumb_age {
                        Some(a) => a > STALL_LIMIT,
                        None => running[i].started.elapsed() > STALL_LIMIT,
                    };
                    if stalled || running[i].started.elapsed() > running[i].plan.timeout {
                        let _ = running[i].child.kill();
                        let _ = running[i].child.wait();
                        Some(Err(()))
                    } else {
                        None
                    }
                }
                Err(_) => Some(Err(())),
            };
            if let Some(res) = done {
                progressed = true;
                let r = running.swap_remove(i);
                // a worker that was killed or left in a hurry could not remove its scratch directory
                let child_scratch = shm_base().parent().map(|p| p.join(format!("bcverif-{}", r.child.id())));
                if let Some(cs) = child_scratch {
                    let _ = std::fs::remove_dir_all(cs);
                }
                let parsed = std::fs::read(&r.out).ok().and_then(|b| serde_json::from_slice::<Value>(&b).ok());
                let crumb = std::fs::read_to_string(r.out.with_extension("cur")).unwrap_or_default();
                let crumb_case: Option<u64> = crumb.lines().next().and_then(|l| l.trim().parse().ok());
                let crumb_what = crumb.lines().nth(1).unwrap_or("").to_string();
                match res {
                    Ok(st) if st.success() && parsed.is_some() => total.merge(Out::from_json(&parsed.unwrap())),
                    Ok(st) => {
                        // partial results, if the worker managed to write any
                        if let Some(p) = parsed {
                            total.merge(Out::from_json(&p));
                        }
                        match st.signal() {
                            Some(sig) if spec.death_is_violation && sig != libc::SIGKILL => {
                                total.violation(
                                    &format!("process-died:{}", signal_name(sig)),
                                    format!("worker process died with {} while running case {:?} ({})", signal_name(sig), crumb_case, crumb_what),
                                    json!({"property": spec.id, "tier": tier.name(), "seed": seed, "case": crumb_case, "mode": r.plan.mode, "detail": crumb_what}),
                                );
                            }
                            _ => total.inconclusive.push(format!("worker {} (mode {}) ended with {:?} at case {:?} ({})", r.idx, r.plan.mode, st, crumb_case, crumb_what)),
                        }
                    }
                    Err(()) => {
                        if let Some(p) = parsed {
                            total.merge(Out::from_json(&p));
                        }
                        total.inconclusive.push(format!(
                        "worker {} (mode {}) made no progress for {:?} or exceeded its watchdog of {:?}; stopped at case {:?} ({})",
                        r.idx, r.plan.mode, STALL_LIMIT, r.plan.timeout, crumb_case, crumb_what
                    ))
                    }
                }
                let _ = std::fs::remove_file(&r.out);
                let _ = std::fs::remove_file(r.out.with_extension("cur"));
            } else {
                i += 1;
            }
        }
        if !progressed {
            std::thread::sleep(Duration::from_millis(5));
        }
    }
    let _ = std::fs::remove_dir_all(&base);
    let _ = std::fs::remove_dir(shm_base());
    total
}

pub fn even_plans(mode: &str, n: u64, timeout: Duration) -> Vec<WorkerPlan> {
    (0..n).map(|i| WorkerPlan { mode: mode.to_string(), shard: i, nshards: n, timeout }).collect()
}

#[derive(Clone, Debug)]
pub struct Known {
    pub property: String,
    pub signature: String,
    pub status: String,
    pub what: String,
}

pub fn load_known(root: &Path) -> Vec<Known> {
    let mut v = Vec::new();
    if let Ok(b) = std::fs::read(root.join("known_findings.json")) {
        if let Ok(j) = serde_json::from_slice::<Value>(&b) {
            if let Some(a) = j["findings"].as_array() {
                for f in a {
                    v.push(Known {
                        property: f["property"].as_str().unwrap_or("").to_string(),
                        signature: f["signature"].as_str().unwrap_or("").to_string(),
                        status: f["status"].as_str().unwrap_or("").to_string(),
                        what: f["what"].as_str().unwrap_or("").to_string(),
                    });
                }
            }
        }
    }
    v
}

/// Turn the merged results into evidence file, stdout lines and the exit code.
pub fn conclude(spec: &CheckSpec, tier: Tier, seed: u64, total: Out, wall: f64, min_nontrivial: u64, extra_cov: Value) -> i32 {
    let root = verif_root();
    let known = load_known(&root);
    let replays = root.join("replays");
    let _ = std::fs::create_dir_all(&replays);
    let mut new_viol = 0u64;
    let mut known_lines = BTreeSet::new();
    let mut viol_lines = Vec::new();
    let mut seen_sigs = BTreeSet::new();
    for (i, v) in total.violations.iter().enumerate() {
        let is_known = known.iter().any(|k| k.property == spec.id && k.status == "known" && k.signature == v.sig);
        if is_known {
            let k = known.iter().find(|k| k.property == spec.id && k.signature == v.sig).unwrap();
            known_lines.insert(format!("KNOWN-FINDING: property={} {} [{}]", spec.id, k.what, v.sig));
            continue;
        }
        new_viol += 1;
        if !seen_sigs.insert(v.sig.clone()) {
            continue;
        }
        let path = replays.join(format!("{}-{}-{}-{}.json", spec.id, tier.name(), seed, i));
        let body = json!({"signature": v.sig, "description": v.desc, "replay": v.replay});
        let _ = std::fs::write(&path, serde_json::to_vec_pretty(&body).unwrap());
        viol_lines.push((format!("VIOLATION property={} replay={}", spec.id, path.display()), format!("  [{}] {}", v.sig, v.desc)));
    }
    let distinct = total.classes.len() as u64;
    let mut cov = json!({
        "evaluations": total.evaluations,
        "distinct_nontrivial": distinct,
        "rule": spec.rule,
        "samples": total.samples,
        "counters": total.counters,
        "maxima": total.maxima,
        "class_examples": total.classes.iter().take(12).collect::<Vec<_>>(),
        "distinct_kinds": total.kinds.len(),
        "kinds": total.kinds.iter().take(400).collect::<Vec<_>>(),
        "known_findings_seen": known_lines.iter().collect::<Vec<_>>(),
        "inconclusive": total.inconclusive,
    });
    if let (Some(c), Some(e)) = (cov.as_object_mut(), extra_cov.as_object()) {
        for (k, v) in e {
            c.insert(k.clone(), v.clone());
        }
    }
    let ev = json!({
        "property_id": spec.id,
        "tier": tier.name(),
        "seed": seed,
        "level": spec.level,
        "coverage": cov,
        "assumptions": spec.assumptions,
        "wall_s": wall,
        "violations": new_viol,
    });
    let evdir = root.join("evidence");
    let _ = std::fs::create_dir_all(&evdir);
    let _ = std::fs::write(evdir.join(format!("{}.json", spec.id)), serde_json::to_vec_pretty(&ev).unwrap());

    for l in &known_lines {
        println!("{}", l);
    }
    let mut summary: Vec<String> = total.counters.iter().map(|(k, v)| format!("{}={}", k, v)).collect();
    summary.extend(total.maxima.iter().map(|(k, v)| format!("max_{}={}", k, v)));
    println!("{} {} seed={} evaluations={} distinct_nontrivial={} wall={:.1}s", spec.id, tier.name(), seed, total.evaluations, distinct, wall);
    println!("  observed: {}", summary.join(" "));
    if !viol_lines.is_empty() {
        for (a, b) in &viol_lines {
            println!("{}", a);
            println!("{}", b);
        }
        return 1;
    }
    if !total.inconclusive.is_empty() {
        for m in &total.inconclusive {
            println!("INCONCLUSIVE property={} {}", spec.id, m);
        }
        return 2;
    }
    if total.evaluations == 0 || distinct < min_nontrivial.max(2) {
        println!("INCONCLUSIVE property={} too little was observed (evaluations={}, distinct_nontrivial={}, required {})", spec.id, total.evaluations, distinct, min_nontrivial.max(2));
        return 2;
    }
    println!("HELD property={} on everything explored", spec.id);
    0
}

pub fn hex(b: &[u8]) -> String {
    let mut s = String::new();
    for x in b.iter().take(48) {
        s.push_str(&format!("{:02x}", x));
    }
    if b.len() > 48 {
        s.push_str(&format!("..({}B)", b.len()));
    }
    s
}

/// Printable rendering of bytes for samples and messages.
pub fn show(b: &[u8]) -> String {
    let mut s = String::new();
    for &c in b.iter().take(40) {
        match c {
            b'\r' => s.push_str("\\r"),
            b'\n' => s.push_str("\\n"),
            0x20..=0x7e => s.push(c as char),
            _ => s.push_str(&format!("\\x{:02x}", c)),
        }
    }
    if b.len() > 40 {
        s.push_str(&format!("..({}B)", b.len()));
    }
    s
}

pub fn fnv(b: &[u8]) -> u64 {
    let mut h: u64 = 0xcbf29ce484222325;
    for x in b {
        h ^= *x as u64;
        h = h.wrapping_mul(0x100000001b3);
    }
    h
}

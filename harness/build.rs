use std::{env, path::PathBuf, process::Command};

fn main() {
    println!("cargo:rerun-if-changed=../shim/iorec.c");
    println!("cargo:rerun-if-changed=build.rs");
    if env::var_os("CARGO_FEATURE_SHIM").is_none() {
        return;
    }
    let out = PathBuf::from(env::var_os("OUT_DIR").unwrap());
    let obj = out.join("iorec.o");
    let st = Command::new("cc")
        .args(["-O2", "-g", "-fPIC", "-Wall", "-c", "../shim/iorec.c", "-o"])
        .arg(&obj)
        .status()
        .expect("cc not found");
    assert!(st.success(), "compiling shim/iorec.c failed");
    // An object file on the link line is always linked in, so its definitions of open64, write,
    // ... are the ones the statically linked Rust code (std included) binds to.
    println!("cargo:rustc-link-arg-bins={}", obj.display());
    println!("cargo:rustc-link-arg-bins=-ldl");
}

#!/bin/sh
# tools/confirm_mutant.sh <worktree> <demo test name>   confirm a sub-agent's claim: demo fails with the change, passes without, suite passes with it
W=$1; T=$2
cd "$W" || exit 2
feat=""; grep -q 'feature = "verif"\|features verif\|verif_' tests/$T.rs && feat="--features verif"
git diff --quiet -- src && { echo "no src change in worktree"; exit 2; }
with=$(cargo test --offline -j 8 $feat --test $T 2>&1 | grep -E "^test result" | tail -1)
git stash push -q -- src
without=$(cargo test --offline -j 8 $feat --test $T 2>&1 | grep -E "^test result" | tail -1)
git stash pop -q
suite=$(cargo test --offline -j 8 --lib 2>&1 | grep -E "^test result" | tail -1)
echo "with change:    $with"
echo "without change: $without"
echo "suite w/ change: $suite"

#!/bin/sh
# tools/confirm_mutant.sh <worktree> <demo test name>   confirm a sub-agent's claim: demo fails with the change, passes without, suite passes with it
# (the change is taken from <worktree>/patch.diff and reverted/re-applied with git apply: the stash is shared between worktrees)
W=$1; T=$2
cd "$W" || exit 2
feat=""; grep -q 'feature = "verif"\|features verif\|verif_' tests/$T.rs && feat="--features verif"
git checkout -q -- src && git apply patch.diff || { echo "patch.diff does not apply in the worktree"; exit 2; }
with=$(cargo test --offline -j 8 $feat --test $T 2>&1 | grep -E "^test result" | tail -1)
git apply -R patch.diff
without=$(cargo test --offline -j 8 $feat --test $T 2>&1 | grep -E "^test result" | tail -1)
git apply patch.diff
suite=$(cargo test --offline -j 8 --lib 2>&1 | grep -E "^test result" | tail -1)
echo "with change:    $with"
echo "without change: $without"
echo "suite w/ change: $suite"

#!/usr/bin/env python3
"""tools/keep_mutant.py <ID> <n> <caught_by comma list> <needs...>: copy a confirmed seeded change from /tmp/mut/<ID> to /verif/seeded/<ID>-<n>/"""
import sys, os, shutil, json, glob
pid, n, caught = sys.argv[1], sys.argv[2], sys.argv[3]
needs = " ".join(sys.argv[4:])
src = f"/tmp/mut/{pid}"
dst = f"/verif/seeded/{pid}-{n}"
os.makedirs(dst, exist_ok=True)
shutil.copy(f"{src}/patch.diff", f"{dst}/patch.diff")
for f in glob.glob(f"{src}/tests/demo_*.rs"):
    shutil.copy(f, dst)
meta_txt = open(f"{src}/meta.txt").read() if os.path.exists(f"{src}/meta.txt") else ""
json.dump({
    "breaks_property": pid,
    "needs_to_manifest": needs,
    "author": "independent sub-agent given only the property text and a scratch worktree",
    "confirmed": "tools/confirm_mutant.sh: demonstration fails with the change and passes without it; cargo test --offline --lib: 44 passed with the change",
    "checks_run_against_it": f"tools/try_mutant.sh {dst}/patch.diff " + " ".join(caught.split(",")),
    "caught_by": [c for c in caught.split(",") if c],
    "sub_agent_notes": meta_txt[:6000],
}, open(f"{dst}/meta.json", "w"), indent=1)
print("kept", dst)

#!/usr/bin/env python3
"""Regenerate MANIFEST.json from the table below (kept next to the checks so the two stay in step)."""
import json, os, sys

ROOT = os.path.dirname(os.path.dirname(os.path.abspath(__file__)))

# id -> (category, design_ref, technique, text, note)
CHECKS = {
    "C01": ("exploration", "DESIGN.md 5/C01",
            "reference-model monitor over generated op sequences (real store vs HashMap), merges via hook",
            "Thousands of generated single-threaded histories (all configurations of file size / reader cache / reader pool, values up to 200 KB, merges at random positions) are executed on the real store and every result is compared with a map model. Held on the histories generated; sampling, not enumeration.",
            "Trusts the 30-line map model and the verif_merge hook (calls the private merge()). No concurrency (C04), no reopen (C02). An eighth of the episodes run with short counts from write, another eighth contain sets/deletes with one injected failing call (the key may then be in either state until written again)."),
    "C02": ("exploration", "DESIGN.md 5/C02",
            "reference-model monitor over generated set/del histories with close/reopen cycles",
            "Generated set/delete histories spanning 1..250 data files are interrupted by close/reopen cycles (1-4 in a row, configuration redrawn each time); after every reopen every key is read back and compared with the map model. Held on the histories generated.",
            "Close = dropping the owning object. No crash (C03) and no merge (C05) in these histories. An eighth of the episodes change the local time zone at every reopen; an eighth run on a file system that returns short counts, another eighth contain sets/deletes with one injected failing call (the key may then be in either state until written again)."),
    "C05": ("exploration", "DESIGN.md 5/C05",
            "reference-model monitor around merge passes and reopen cycles, thresholds drawn to vary the selected subset",
            "Every key is read before a merge, right after it and after each of 1-3 following reopen cycles, for merges at random positions and thresholds from 8 families (all, none, fragmentation, dead bytes, small file, mixed, defaults), and compared with the map model. Held on the histories generated; the selected subsets seen are listed in the evidence.",
            "Merges run through the verif_merge hook. Which subset a merge selects is observed from the files that disappear. Some episodes contain sets/deletes or merge passes with one injected failing call."),
    "C12": ("exploration", "DESIGN.md 5/C12",
            "differential monitor: recovery of the same closed directory with and without its hint files",
            "At quiescent points after merges the closed directory is copied twice (as is / all *.hint removed), both copies are opened by the real code and every key must read the same in both. Held on the directory pairs generated; only pairs whose hint files were non-empty count as non-trivial.",
            "Only agreement between the two recoveries is judged (agreement with the model is C02/C05); an open that fails on one side only is a difference. Some episodes contain merges with one failing hint-file call, keys up to 1 MiB, or a foreign empty hint file."),
    "C13": ("exploration", "DESIGN.md 5/C13",
            "size and content monitor around every merge: file sizes, independent record scan, reference store",
            "Total data-file size is measured around every merge (never grows); for all-eligible merges it must equal the sum of live record sizes, equal a reference store built by the real code from the live pairs, hold each live key exactly once per an independent scan, and be unchanged by a repeated merge. Held on the merges generated.",
            "Record sizes come from the harness's own description of the file format."),
    "C19": ("exploration", "DESIGN.md 5/C19",
            "invariant check at quiescent points: verif_dump (index + per-file counters) vs independent scan of the data files",
            "After every few operations, every merge and every reopen the dumped index and per-file live/dead/dead-bytes counters are compared with counts derived from an independent scan of the files and with the map model. Held on the snapshots taken.",
            "verif_dump is a read-only copy taken under the writer lock. Crash-free histories only, as the property states; an eighth of them contain sets/deletes with one injected failing call and a tenth merges with one failing call (still crash-free)."),
    "C03": ("fault_enumeration", "DESIGN.md 5/C03",
            "crash-point enumeration: every prefix of the recorded file-system calls is rebuilt and reopened by the real code, checked against the model of acknowledged operations",
            "Single-threaded episodes (set/del/get, entries above and below the write buffer, merges, reopen cycles) are recorded through the I/O shim; for every prefix of the directory-changing calls the directory is rebuilt, opened with the real code, every key compared with the map model of the operations acknowledged by then (in-flight op either way), and a continuation run. Exhaustive over kill points per recorded episode; episodes sampled.",
            "Kill modelled at call boundaries (one write call is atomic; a quarter of the episodes have short counts so that the boundary inside an entry exists; another quarter have one injected failing call before the kill). Shim completeness is self-checked per episode (log replay must reproduce the directory byte for byte)."),
    "C09": ("fault_enumeration", "DESIGN.md 5/C09",
            "power-loss state enumeration from the recorded call log: per file cut back to its last fsync, reopened by the real code, checked against the model",
            "As C03 under sync=always with fsync calls as extra cut points: at every call boundary files are cut back to (or towards) their length at the last completed fsync in several variants, the directory is opened with the real code and every acknowledged operation must read as the model says.",
            "Failure model as stated in the property (per-file loss of any unsynced suffix, durable directory entries). A quarter of the episodes contain one injected failing call (half of them inside a merge pass) before the power loss."),
    "C14": ("exploration", "DESIGN.md 5/C14",
            "rule monitor over the recorded call log (open flags, write offsets, truncate/rename/link, id monotonicity) across kill/restart chains",
            "Every call on the store directory, over chains of recorded episodes separated by kills at random call boundaries, is checked against rules R1-R6 (exclusive create, append-only, no truncate/rename/link, writes only via the creating descriptor, ids above everything the directory ever held, at most one entry beyond max_file_size).",
            "The shim sees all directory-changing calls (self-checked). Crash points for the chains are sampled, not enumerated. A quarter of the chains have one failing call per episode, another quarter short counts from write."),
    "C20": ("fault_enumeration", "DESIGN.md 5/C20",
            "fault injection at every write/create/fsync/unlink position of a plan (one rerun per position), model-based oracle with the faulted key ambiguous",
            "Each plan is rerun once per fallible call position with that call failing (ENOSPC/EIO, transient). The faulted operation must report an error, every other operation must succeed and match the model in the running process and after restart, the directory must reopen and accept further work. Exhaustive over positions per plan; plans sampled.",
            "Faults are whole-call failures at the libc boundary; in half of the plans the shim also returns short counts from write, so that a fault on the retry leaves a part of the entry in the file (how ENOSPC really looks). A quarter of the plans also fails read-side calls (open for reading, mmap)."),
    "C04": ("exploration", "DESIGN.md 5/C04",
            "recorded concurrent histories at the Handle boundary checked by a per-key Wing-Gong linearizability search; panic / reader-pool / stall monitors; shim-injected delays",
            "Many threads (writers, readers, deleter, merging thread) drive one store in barrier-separated segments under seeded delay injection at file-system calls; every (key, segment) history is checked for linearizability against a set/get/del register, every op runs under catch_unwind, the reader pool is inspected at every barrier and a 30 s no-progress rule catches hangs. Thorough adds a ThreadSanitizer build of the same worker. Held on the interleavings produced.",
            "Stamps from one atomic counter taken outside the calls (can only widen intervals). Interleavings are sampled. A quarter of the episodes run with short counts from write (an entry reaches its file in two calls), another quarter with read-side failures armed now and then (a get or merge pass may then report an error, which is not a result)."),
    "C07": ("exploration", "DESIGN.md 5/C07",
            "differential monitor: Frame::check / Frame::parse vs an independent i128, non-recursive reference decoder over generated, truncated, corrupted and adversarial inputs; child-process death observed",
            "Millions of inputs (grammar-generated frames with all truncations and corruptions, numbers at every buffer offset 1..64 around the 2^63/2^64 limits, random RESP-alphabet strings, nesting up to 10^6, absurd lengths under RLIMIT_AS) are fed to check and parse on a 2 MiB stack in child processes: no panic, no death, every returned frame equals the reference's with the same length, and check/parse agree on length. Thorough adds a release build (wrapping arithmetic) and a Miri pass.",
            "The reference decoder's explicit leniencies are the implementation's documented ones."),
    "C08": ("exploration", "DESIGN.md 5/C08",
            "round-trip monitor over an in-memory stream that delivers exactly chosen segments; reference encoder; exhaustive two-way splits and prefixes for short encodings",
            "Generated frame sequences are written with Connection::write_frame (bytes must equal the reference encoding) and read back with Connection::read_frame under all-at-once, byte-by-byte, every two-segment split and random segmentations (same frames, then clean None); every strict prefix must be Incomplete for Frame::check and a stream ending inside a frame must give an error. Thorough repeats a reduced set under Miri.",
            "Nested arrays are not frames the connection can write (unimplemented in write_frame). The sink of the writer test takes everything or at most 1/7/4096/10000 bytes per write call; a sixth of the read-back runs have one read fail with Interrupted, after which read_frame is called again."),
    "C06": ("exploration", "DESIGN.md 5/C06",
            "byte-exact reply-stream monitor over real TCP connections to the real server (child process): map model + reference encoder, varied segmentation and pipelining",
            "Generated SET/GET/DEL streams (arbitrary UTF-8 keys, values up to 256 KB) are sent to a child process running the real Server over a real store under one-byte / random / frame-aligned / all-at-once segmentation and pipelining depth 1..whole stream; the received bytes must equal the model's reply stream byte for byte, and the store dumped at the end must equal the model.",
            "Receiver-side segmentation is influenced, not controlled (C08 controls it exactly). One server child per worker. One connection in seven half-closes its sending side before it reads; every eighth case adds a client that leaves 12 MB of replies unread for a while."),
    "C10": ("exploration", "DESIGN.md 5/C10",
            "containment monitor: hostile streams of 14 classes on some connections while model-checked control connections run; process liveness, fresh-connection probe and store dump",
            "1-4 hostile connections (garbage, malformed and mistyped commands, truncation, nesting to 10^6, absurd lengths, handler panics) run concurrently with control connections whose every reply is checked byte for byte; afterwards the server process must be alive, a fresh connection served, and the dumped store equal the model changed only by well-formed SET/DEL.",
            "Memory exhaustion by gigabyte streams is not attempted. The handler-panic attack uses a storage wrapper around the real handle (serve.rs). Every eighth scenario also resets peers while they wait in the listen backlog and puts the server through two short descriptor shortages."),
    "C11": ("exploration", "DESIGN.md 5/C11",
            "recorded client-side histories over real TCP connections checked by the per-key Wing-Gong linearizability search; timer-driven merges and shim delays inside the server",
            "2-12 client connections issue SET/GET/DEL on shared keys against a child process running the real Server whose store merges on a 5-20 ms timer; every (key, segment) history, with stamps taken at the client around send/receive, is checked for linearizability (real-time order subsumes per-connection order). Held on the interleavings produced.",
            "Stamps taken outside send/receive only widen intervals. Interleavings are sampled. In a quarter of the episodes read-side failures (open/mmap of a data file) are armed in the server: a GET may then end with its connection closed, which is not a reply."),
    "C15": ("exploration", "DESIGN.md 5/C15",
            "behavioural monitor on client sockets: who gets replies while N connections are provably open; full-capacity probe after batches of connections ended in six ways",
            "Against the real Server with max_connections=N: an (N+1)-th client must not be answered while N others are open and answering, must be answered after one closes; 3N simultaneous clients are served at most N at a time; after batches of connections ended by clean close, close mid-frame, malformed command, handler-task panic, blocking-thread panic and reset, N fresh connections must all be served at once.",
            "Negative observation (no reply in 500 ms) is never a verdict on its own. Handler panics come from a storage wrapper around the real handle. Accept failures come from a 30-90 ms descriptor shortage made inside the server child (RLIMIT_NOFILE lowered, holes filled); another ending resets peers while they wait in the listen backlog."),
    "C16": ("exploration", "DESIGN.md 5/C16",
            "shutdown monitor: time to return of Server::run, byte streams of clients in drawn states parsed by the reference decoder, store dump vs acknowledged commands; real svr binary under SIGINT",
            "The shutdown future is completed at seeded moments while clients are idle, mid-frame, streaming commands (server writes delayed by the shim) or reading a large reply; run() must return within 15 s plus injected delays, every client stream must be whole correct replies then EOF/reset, and the store must hold every acknowledged command plus a prefix of the unacknowledged ones. Every 8th case uses the real svr binary with SIGINT and reopens the directory.",
            "Clients keep reading. The time bound is wall clock with large slack. Client states: idle, half a frame, streaming, big reply (sent in one write), flooding, trickling (keeps uploading after the signal)."),
    "C17": ("exploration", "DESIGN.md 5/C17",
            "lifecycle monitor: results of handle calls after drop, shim log by thread id, /proc thread and descriptor accounting, immediate reopen against the model",
            "Thousands of open/use/drop cycles with the merge timer far away, with merges running (delayed by the shim so drops land inside them) and with interval sync: every call through a kept handle must fail with 'closed' and cause no directory-changing call, the drop must return and the worker thread be gone promptly, the directory must open again at once with the model's contents, and threads and store descriptors must not accumulate.",
            "Thread and descriptor accounting via /proc/self. 5 s promptness bound is wall clock with slack. In a quarter of the quiet cycles the last operation before the drop has one injected failing call; one drop in six happens while the owning thread unwinds from a panic."),
    "C18": ("exploration", "DESIGN.md 5/C18",
            "timed observation of the shim's call log on an idle store: merge events and fsyncs vs policy, triggers (incl. equality boundary), interval and jitter",
            "Nine scenario kinds (never; always with nothing dead / dead bytes equal / fragmentation equal; dead bytes crossed; fragmentation crossed; window containing / excluding the current hour; interval sync) with intervals 150-400 ms and jitter 0/0.3/1.0: merges must not run where forbidden within 10 intervals and must run within interval*(1+jitter)+3 s where a trigger was crossed; fsync gaps on an idle open store stay below 2*interval+1.5 s and stop at close.",
            "Wall-clock bounds with stated slack; a timer off by less than the slack passes. Three quarters of the workers run in a local time zone other than UTC (TZ set per worker process). In half of the crossed-trigger and interval-sync scenarios the first background pass / first periodic fsync fails (injected), and the task has to carry on."),
}

NOT_YET = {
}

def main():
    checks = []
    for pid in sorted(CHECKS):
        cat, ref, tech, text, note = CHECKS[pid]
        checks.append({
            "property_id": pid,
            "quick_cmd": f"./check {pid} --tier quick",
            "thorough_cmd": f"./check {pid} --tier thorough",
            "evidence_file": f"/verif/evidence/{pid}.json",
            "replay_cmd_template": f"./check {pid} --replay {{path}}",
            "engine": "bcverif",
            "level_claimed": {"category": cat, "text": text, "design_ref": ref},
            "level_note": note,
            "technique": tech,
        })
    props = [json.loads(l)["id"] for l in open(os.path.join(ROOT, "properties.jsonl"))]
    na = [{"property_id": p, "reason": NOT_YET.get(p, "check not built yet in this revision of /verif (work in progress; see DESIGN.md section 5 for the planned monitor)")} for p in props if p not in CHECKS]
    hooks_commits = [l.strip() for l in open(os.path.join(ROOT, "hooks_commits.txt")) if l.strip()]
    m = {
        "version": 1,
        "setup_cmd": "./setup.sh",
        "hooks": {
            "guard": "cargo feature `verif` (off by default)",
            "enable": "the harness crate depends on bitcask = { path = \"/repo\", features = [\"verif\"] }; ./check runs cargo build --offline on it before every check",
            "baseline_off_cmd": "cd /repo && cargo test --workspace --no-fail-fast --offline",
            "source_commits": hooks_commits,
            "add_only": True,
        },
        "engines": [{
            "name": "bcverif",
            "path": "/verif/harness",
            "serves_properties": sorted(CHECKS),
            "kind_free_text": "Rust harness that runs the real bitcask library / server under generated, concurrent and fault-injected workloads; shim/iorec.c (linked into the harness) records, fails and delays file-system calls; oracles: map model, per-key linearizability checker, reference RESP codec, independent data-file scanner, directory model for crash states",
        }],
        "checks": checks,
        "not_applicable": na,
        "notes": "Runtime monitoring only: every verdict is an oracle observing executions of the real code. Exit 2 = inconclusive (never folded into held or violated). known_findings.json lists genuine defects that are recorded rather than repaired.",
    }
    json.dump(m, open(os.path.join(ROOT, "MANIFEST.json"), "w"), indent=1)
    print("MANIFEST.json:", len(checks), "checks,", len(na), "not applicable")

if __name__ == "__main__":
    main()

#!/usr/bin/env python3
"""Regenerate MANIFEST.json from the table below (kept next to the checks so the two stay in step)."""
import json, os, sys

ROOT = os.path.dirname(os.path.dirname(os.path.abspath(__file__)))

# id -> (category, design_ref, technique, text, note)
CHECKS = {
    "C01": ("exploration", "DESIGN.md 5/C01",
            "reference-model monitor over generated op sequences (real store vs HashMap), merges via hook",
            "Thousands of generated single-threaded histories (all configurations of file size / reader cache / reader pool, values up to 200 KB, merges at random positions) are executed on the real store and every result is compared with a map model. Held on the histories generated; sampling, not enumeration.",
            "Trusts the 30-line map model and the verif_merge hook (calls the private merge()). No concurrency (C04), no reopen (C02)."),
}

NOT_YET = {
}

def main():
    checks = []
    for pid in sorted(CHECKS):
        cat, ref, tech, text, note = CHECKS[pid]
        checks.append({
            "property_id": pid,
            "quick_cmd": f"./check {pid} --tier quick",
            "thorough_cmd": f"./check {pid} --tier thorough",
            "evidence_file": f"/verif/evidence/{pid}.json",
            "replay_cmd_template": f"./check {pid} --replay {{path}}",
            "engine": "bcverif",
            "level_claimed": {"category": cat, "text": text, "design_ref": ref},
            "level_note": note,
            "technique": tech,
        })
    props = [json.loads(l)["id"] for l in open(os.path.join(ROOT, "properties.jsonl"))]
    na = [{"property_id": p, "reason": NOT_YET.get(p, "check not built yet in this revision of /verif (work in progress; see DESIGN.md section 5 for the planned monitor)")} for p in props if p not in CHECKS]
    hooks_commits = [l.strip() for l in open(os.path.join(ROOT, "hooks_commits.txt")) if l.strip()]
    m = {
        "version": 1,
        "setup_cmd": "./setup.sh",
        "hooks": {
            "guard": "cargo feature `verif` (off by default)",
            "enable": "the harness crate depends on bitcask = { path = \"/repo\", features = [\"verif\"] }; ./check runs cargo build --offline on it before every check",
            "baseline_off_cmd": "cd /repo && cargo test --workspace --no-fail-fast --offline",
            "source_commits": hooks_commits,
            "add_only": True,
        },
        "engines": [{
            "name": "bcverif",
            "path": "/verif/harness",
            "serves_properties": sorted(CHECKS),
            "kind_free_text": "Rust harness that runs the real bitcask library / server under generated, concurrent and fault-injected workloads; shim/iorec.c (linked into the harness) records, fails and delays file-system calls; oracles: map model, per-key linearizability checker, reference RESP codec, independent data-file scanner, directory model for crash states",
        }],
        "checks": checks,
        "not_applicable": na,
        "notes": "Runtime monitoring only: every verdict is an oracle observing executions of the real code. Exit 2 = inconclusive (never folded into held or violated). known_findings.json lists genuine defects that are recorded rather than repaired.",
    }
    json.dump(m, open(os.path.join(ROOT, "MANIFEST.json"), "w"), indent=1)
    print("MANIFEST.json:", len(checks), "checks,", len(na), "not applicable")

if __name__ == "__main__":
    main()

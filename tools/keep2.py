#!/usr/bin/env python3
"""tools/keep2.py <worktree id> <property> <n> <caught_by> <needs...>"""
import sys, os, shutil, json, glob
src_id, pid, n, caught = sys.argv[1:5]; needs=" ".join(sys.argv[5:])
src=f"/tmp/mut/{src_id}"; dst=f"/verif/seeded/{pid}-{n}"
os.makedirs(dst, exist_ok=True)
shutil.copy(f"{src}/patch.diff", f"{dst}/patch.diff")
for f in glob.glob(f"{src}/tests/demo_*.rs"): shutil.copy(f, dst)
meta_txt=open(f"{src}/meta.txt").read() if os.path.exists(f"{src}/meta.txt") else ""
json.dump({"breaks_property": pid, "needs_to_manifest": needs,
  "author": "independent sub-agent given only the property text, a one-line description of an earlier seeded change to stay away from, and a scratch worktree",
  "confirmed": "tools/confirm_mutant.sh: demonstration fails with the change and passes without it; cargo test --offline --lib: 44 passed with the change",
  "checks_run_against_it": f"tools/try_mutant.sh {dst}/patch.diff {pid}",
  "caught_by": [c for c in caught.split(',') if c], "sub_agent_notes": meta_txt[:6000]}, open(f"{dst}/meta.json","w"), indent=1)
print("kept", dst)

#!/bin/sh
# tools/regress_seeded.sh [ids...]   run every seeded change (or the named ones) against the check that is meant to
# catch it (meta.json: caught_by[0]) and say whether it is still caught. Changes marked obsolete in meta.json (the
# property holds with them since a later fix) must leave the check silent. Edits /repo while it runs; nothing else
# may use /repo meanwhile.
cd /verif || exit 2
LIST=${*:-$(ls seeded)}
bad=0
for d in $LIST; do
    p=$(python3 -c "import json;m=json.load(open('seeded/$d/meta.json'));print((m.get('caught_by') or m.get('caught_by_at_the_time') or ['${d%-*}'])[0])")
    obsolete=$(python3 -c "import json;m=json.load(open('seeded/$d/meta.json'));print('yes' if m.get('obsolete') else 'no')")
    if [ -n "$(git -C /repo status --porcelain --untracked-files=no)" ]; then echo "/repo not clean"; exit 2; fi
    git -C /repo apply "/verif/seeded/$d/patch.diff" 2>/dev/null || { echo "$d: PATCH DOES NOT APPLY"; bad=$((bad+1)); continue; }
    out=$(./check "$p" 2>&1); code=$?
    git -C /repo checkout -- .
    sig=$(echo "$out" | grep -E "^  \[" | head -1 | cut -c1-90)
    if [ "$obsolete" = yes ]; then
        if [ $code -eq 0 ]; then echo "$d: obsolete, $p silent as it should be"; else echo "$d: obsolete but $p exit $code $sig"; bad=$((bad+1)); fi
    elif [ $code -eq 1 ]; then echo "$d: caught by $p   $sig"; else echo "$d: MISSED by $p (exit $code)"; bad=$((bad+1)); fi
done
echo "problems: $bad"
exit $bad

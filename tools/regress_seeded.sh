#!/bin/sh
# tools/regress_seeded.sh [ids...]   run every seeded change (or the named ones) against its property's quick check
# and say whether it is still caught. Edits /repo while it runs; nothing else may use /repo meanwhile.
cd /verif || exit 2
LIST=${*:-$(ls seeded)}
missed=0
for d in $LIST; do
    p=${d%-*}
    if [ -n "$(git -C /repo status --porcelain --untracked-files=no)" ]; then echo "/repo not clean"; exit 2; fi
    git -C /repo apply "seeded/$d/patch.diff" 2>/dev/null || { echo "$d: PATCH DOES NOT APPLY"; missed=$((missed+1)); continue; }
    out=$(./check "$p" 2>&1); code=$?
    git -C /repo checkout -- .
    sig=$(echo "$out" | grep -E "^  \[" | head -1 | cut -c1-90)
    if [ $code -eq 1 ]; then echo "$d: caught   $sig"; else echo "$d: MISSED (exit $code)"; missed=$((missed+1)); fi
done
echo "missed: $missed"
# leave the evidence of the unchanged tree behind
exit $missed

#!/bin/sh
# tools/try_mutant.sh <patch.diff> <check id>...   apply a seeded change to /repo, run the given checks (quick), undo it
set -u
PATCH=$1; shift
cd /repo || exit 2
if [ -n "$(git status --porcelain --untracked-files=no)" ]; then echo "/repo is not clean"; exit 2; fi
git apply "$PATCH" || { echo "patch does not apply"; exit 2; }
cd /verif
for c in "$@"; do
    start=$(date +%s)
    out=$(./check "$c" 2>&1)
    code=$?
    end=$(date +%s)
    echo "== $c exit=$code ($((end-start))s)"
    echo "$out" | grep -E "^(VIOLATION|KNOWN|INCONCLUSIVE|HELD|  \[)" | cut -c1-420 | head -6
done
git -C /repo checkout -- . 
git -C /repo status --porcelain --untracked-files=no

#!/usr/bin/env python3
"""Validate MANIFEST.json and every evidence file against the schemas in /root/.vp (needs jsonschema: run with python3-vt)."""
import json, glob, sys
import jsonschema
m=json.load(open('/verif/MANIFEST.json')); jsonschema.validate(m, json.load(open('/root/.vp/MANIFEST.schema.json')))
es=json.load(open('/root/.vp/EVIDENCE.schema.json'))
bad=0
for c in m['checks']:
    f=c['evidence_file']
    try:
        e=json.load(open(f)); jsonschema.validate(e, es)
        cov=e['coverage']
        print(f"{c['property_id']} {e['tier']:8} eval={cov['evaluations']:>10} distinct={cov['distinct_nontrivial']:>9} samples={len(cov['samples'])} viol={e.get('violations')}")
        if not cov['samples']: bad+=1; print('  NO SAMPLES')
    except Exception as ex:
        bad+=1; print(c['property_id'], 'INVALID', str(ex)[:200])
print('manifest ok;', 'evidence problems:', bad)
sys.exit(1 if bad else 0)
